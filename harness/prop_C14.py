"""C14 — Component extraction mirrors the BridgePoint class model.

A case is a BridgePoint population, a component name (or none), the derived-attributes flag, an edit
script and an entry point.  The population is either

  synth   a class diagram from `ooa_encoder.gen_diagram` (all relationship shapes, asymmetric ends,
          reflexive relationships with phrases, multi-attribute identifiers and referentials, user /
          enumeration / unsupported types, nested packages and components), encoded as the INSERT
          statements of an .xtuml file with the rows in a PRNG-permuted order, or
  real    tests/resources/Simple_Model.xtuml or the model embedded in tests/test_bridgepoint/
          test_interpret.py, loaded with the statements of the file in a PRNG-permuted order; its
          diagram is read off the loaded rows by `ooa_encoder.decode`.

The edit script (rename / retype / reorder attributes, set Mult / Cond / Txt_Phrs of an end, move a class
or a relationship to another package / component / out of every container) is applied directly to the
loaded ooaofooa population (setattr / relate / unrelate).  Entry points: `mk_component`,
`ModelLoader.build_component`, `bridgepoint.load_component` (file), `gen_sql_schema.main` (file in, SQL
file out, re-loaded with `xtuml.ModelLoader`).

  D  the definitions built (before and after the edits; canonical form: classes by key letters,
     identifiers by number, associations by relationship number and then by content, key PAIRS sorted)
     equal the specification `ooa_encoder.py_extract` of the (edited) diagram — so an edit changes exactly
     the corresponding part; an unknown component name raises OoaOfOoaException; a relationship of the component whose class lies outside
     it (or two classes with the same upper-cased key letters) makes the build raise MetaModelException; the SQL written by
     gen_sql_schema / xtuml.serialize_schema + serialize_unique_identifiers loads back to the same
     definitions; the file written by gen_sql_schema.main equals, character by character, the text an independent
     printer (`ooa_encoder.py_sql_text`) produces for the diagram, CREATE UNIQUE INDEX lines included.
  K  the same canonical definitions from the Lean model: `extract d`, `extract (applyEdits es d)` and
     `schemaEdits (resolveAll d es) (extract d)` (lean/PyxModel/Extract).
"""
import ast
import copy
import hashlib
import json
import os
import sys
import tempfile

import ooa_encoder as E
from common import HarnessError
from sexp import Sym, dumps

PROP = 'C14'
RULE = ('random class diagrams (1-5 classes, 0-6 relationships of every kind incl. reflexive and derived, 1-7 packages / '
        'components, enumeration / user / unsupported types) x component choice (whole model, every component whose '
        'scope is closed, unknown name, empty name) x derived flag x entry point x random edit scripts (quick: length '
        '0-3, thorough: 0-5), rows shuffled; plus on the two real BridgePoint models every single edit at every '
        'applicable site (rename each attribute, retype each base attribute to each supported type, every permutation '
        'of the attributes of each class up to 4 attributes, each Mult / Cond value and a new phrase at each end, each '
        'class / relationship to each container, each class moved out of / into the component together with its '
        'relationships, each class moved alone - the build must then raise MetaModelException because a relationship of the component lost a class) and random scripts; plus OPEN scopes on synthesised diagrams: components (nested ones, packages inside components) that hold a relationship but not all of its classes, initially or after unrestricted move edits - expected outcome MetaModelException, never a half-defined association; plus the SQL FILE character by character: for every third diagram (rows in modeled order) the text written by gen_sql_schema.main equals the specified text (CREATE TABLE per class sorted by upper-cased key letters, each followed by its CREATE UNIQUE INDEX lines, then the CREATE ROP lines sorted by rel_id). A case is non-trivial when the scope holds a formalised relationship and, '
        'if it has edits, the edits change the result; distinct = distinct case content')
EXHAUSTIVE = {'quick': False, 'thorough': False}
ASSUMPTIONS = [
    'unresolved populations (a relationship names a class / attribute row that does not exist) are outside the property: '
    'D demands nothing there, K compares the ending (AttributeError) with buildOutcome of the model',
    'domain: well-formed populations — acyclic containment and user-type chains, one R103 chain per class, distinct '
    'key letters / attribute names per class / relationship numbers / component names, formalised simple relationships, '
    'every relationship in scope has its classes in scope, referred identifiers consist of kept attributes, no EP_PKGREF',
    'names are SQL identifiers (reload) and phrases contain no quote: lexical matters belong to C01/C12',
]
TRUSTED_EXTRA = ['harness/ooa_encoder.py: diagram -> ooaofooa rows (cross-checked on sampled cases by the ooaofooa '
                 'consistency check restricted to the populated classes and by decode(load(encode d)) = d), '
                 'decode: rows -> diagram, the Python specification py_extract (oracle of D)']
CHUNK = 400
CASE_TIMEOUT_S = 30
BUDGET_S = {'quick': 200, 'thorough': 1500}

_ctx = {}


# --------------------------------------------------------------------------- setup

def _interp_model_text(repo):
    src = open(os.path.join(repo, 'tests', 'test_bridgepoint', 'test_interpret.py'), encoding='utf-8').read()
    for node in ast.parse(src).body:
        if isinstance(node, ast.Assign) and getattr(node.targets[0], 'id', None) == 'model':
            return ast.literal_eval(node.value)
    raise HarnessError('tests/test_bridgepoint/test_interpret.py has no module-level `model` string')


def setup(ctx):
    import xtuml
    import bridgepoint
    from bridgepoint import ooaofooa
    repo = str(ctx.ws.repo)
    base = ooaofooa.Loader()
    nbase = len(base.statements)
    tmp = str(ctx.ws.tmp('c14'))
    interp_path = os.path.join(tmp, 'interp_model.xtuml')
    with open(interp_path, 'w', encoding='utf-8') as f:
        f.write(_interp_model_text(repo))
    real = {}
    for name, path in (('simple', os.path.join(repo, 'tests', 'resources', 'Simple_Model.xtuml')),
                       ('interp', interp_path)):
        l = _clone(ooaofooa, base)
        l.filename_input(path)
        m = l.build_metamodel()
        d = E.decode(m)
        if any(r['kind'][0] == 'unsupported' for r in d['rels']):
            raise HarnessError('real model %s holds a relationship outside the modelled kinds' % name)
        real[name] = {'path': path, 'statements': l.statements, 'diagram': d}
    _ctx.update(xtuml=xtuml, bridgepoint=bridgepoint, ooaofooa=ooaofooa, base=base, nbase=nbase, tmp=tmp, real=real)
    E.predefined_dts()


def _clone(ooaofooa, base):
    l = ooaofooa.Loader.__new__(ooaofooa.Loader)
    l.__dict__.update(base.__dict__)
    l.statements = list(base.statements)
    return l


# --------------------------------------------------------------------------- generation

def _comp_id(d, name):
    st = E.py_select_comp(d, name)
    return st[1] if st[0] == 'ok' else None


def _script(rng, d, name, n, kinds=None):
    """a random edit script of length <= n that leaves the scope of component `name` closed"""
    cur, out = d, []
    for _ in range(n):
        e = E.gen_edit(rng, cur, _comp_id(cur, name), kinds)
        if e is None:
            break
        nxt = E.py_apply_edit(cur, e)
        if E.py_select_comp(nxt, name)[0] != 'ok' or not E.scope_valid(nxt, _comp_id(nxt, name)):
            continue
        cur = nxt
        out.append(e)
    return out


def _move_with_rels(d, c, target):
    """script: move class `c` and every relationship it takes part in to `target`"""
    return [['move-rel', r['id'], target] for r in d['rels'] if c in E.rel_classes(r)] + [['move-class', c, target]]


def _real_sites(d, name):
    """every single edit at every applicable site of a real model"""
    import itertools
    sup = [t['id'] for t in d['dts'] if E.py_dt_type(d, t['id'])]
    parents = [None] + [['comp' if k['comp'] else 'pkg', k['id']] for k in d['containers']]
    for c in d['classes']:
        for a in c['attrs']:
            yield [['rename', c['id'], a['id'], a['name'] + '_renamed']]
            if a['kind'][0] != 'ref' and E.py_dt_type(d, a['kind'][1]):
                for t in sup:
                    if t != a['kind'][1]:
                        yield [['retype', c['id'], a['id'], t]]
        ids = [a['id'] for a in c['attrs']]
        if 2 <= len(ids) <= 4:
            for perm in itertools.permutations(ids):
                if list(perm) != ids:
                    yield [['reorder', c['id'], list(perm)]]
        for p in parents:
            if p != c['parent']:
                yield [['move-class', c['id'], p]]
                yield _move_with_rels(d, c['id'], p)
                # ... and back again
                yield _move_with_rels(d, c['id'], p) + _move_with_rels(d, c['id'], c['parent'])
    for r in d['rels']:
        k = r['kind'][0]
        for sel in ({'simple': ['form', 'part'], 'linked': ['one', 'oth']}.get(k, [])):
            for v in (False, True):
                yield [['mult', r['id'], sel, v]]
                yield [['cond', r['id'], sel, v]]
            yield [['phrase', r['id'], sel, 'edited %s phrase' % sel]]
        for p in parents:
            if p != r['parent']:
                yield [['move-rel', r['id'], p]]


def _valid_script(d, name, edits):
    cur = d
    for e in edits:
        cur = E.py_apply_edit(cur, e)
    st = E.py_select_comp(cur, name)
    return st[0] == 'ok' and E.scope_valid(cur, st[1])


def generate(ctx):
    rng = ctx.rng.fork('gen')
    # ---- real models: every single edit at every site, whole model and each component, both flags
    for model, info in sorted(_ctx['real'].items()):
        d = info['diagram']
        names = E.comp_choices(d)
        i = 0
        for name in names:
            for drv in (False, True):
                for entry in ('mk', 'build', 'load', 'main'):
                    if entry == 'load' and drv:
                        continue
                    yield {'src': 'real', 'model': model, 'comp': name, 'drv': drv, 'edits': [], 'entry': entry,
                           'perm': rng.randint(1, 1 << 30)}
                for edits in _real_sites(d, name):
                    # scripts that leave a relationship of the component without one of its classes are kept:
                    # the build must then raise MetaModelException
                    i += 1
                    yield {'src': 'real', 'model': model, 'comp': name, 'drv': drv, 'edits': edits, 'entry': 'mk',
                           'perm': rng.randint(1, 1 << 30) if i % 3 == 0 else None}
        for j in range(ctx.pick(40, 600)):
            r = rng.fork(model, j)
            name = r.choice(names)
            edits = _script(r, d, name, r.randint(2, ctx.pick(4, 8)))
            yield {'src': 'real', 'model': model, 'comp': name, 'drv': r.random() < 0.5, 'edits': edits, 'entry': 'mk',
                   'perm': r.randint(1, 1 << 30)}
        for name in ('NoSuchComponent', ''):
            yield {'src': 'real', 'model': model, 'comp': name, 'drv': False, 'edits': [], 'entry': 'build', 'perm': None}
    # ---- synthesised diagrams
    n = ctx.pick(320, 5000)
    for i in range(n):
        r = rng.fork('synth', i)
        d = E.gen_diagram(r, max_classes=ctx.pick(5, 7))
        choices = E.comp_choices(d)
        x = r.random()
        if x < 0.04:
            name = 'NoSuchComponent'
        elif x < 0.08:
            name = ''
        else:
            name = r.choice(choices[1:]) if (len(choices) > 1 and r.random() < 0.7) else None
        drv = r.random() < 0.5
        entry = r.choice(['mk', 'mk', 'mk', 'build', 'build', 'load', 'main'])
        if name == 'NoSuchComponent':
            entry = r.choice(['build', 'load', 'main'])
        if entry == 'load':
            drv = False
        edits = []
        if entry == 'mk' and r.random() < 0.75:
            edits = _script(r, d, name, r.randint(1, ctx.pick(3, 5)))
        yield {'src': 'synth', 'diagram': d, 'comp': name, 'drv': drv, 'edits': edits, 'entry': entry,
               'perm': r.randint(1, 1 << 30), 'audit': i % 4 == 0}
        # ---- open scopes: a component that holds a relationship but not all of its classes (initially or after
        #      unrestricted move edits), nested components and packages inside components included
        opened = [k['name'] for k in d['containers'] if k['comp'] and not E.scope_valid(d, k['id'])]
        if opened and i % 2 == 0:
            yield {'src': 'synth', 'diagram': d, 'comp': r.choice(opened), 'drv': drv, 'edits': [],
                   'entry': r.choice(['mk', 'build', 'load', 'main']) if not drv else r.choice(['mk', 'build', 'main']),
                   'perm': r.randint(1, 1 << 30)}
        comps = [k['name'] for k in d['containers'] if k['comp']]
        if comps and i % 3 == 0:
            nm = r.choice(comps)
            free, cur = [], d
            for _ in range(r.randint(1, 4)):
                e = E.gen_edit(r, cur, _comp_id(cur, nm), ['move-class', 'move-rel', 'move-class', 'rename'])
                if e is None:
                    break
                cur = E.py_apply_edit(cur, e)
                free.append(e)
            yield {'src': 'synth', 'diagram': d, 'comp': nm, 'drv': drv, 'edits': free, 'entry': 'mk',
                   'perm': r.randint(1, 1 << 30)}
        if i % 4 == 2:
            # unresolved: a relationship names a class / attribute row that does not exist - the extractor dereferences
            # None (AttributeError); the model reports the same ending (buildOutcome)
            broken = E.break_resolution(r, d, lambda: 10 ** 7 + r.randint(1, 10 ** 6))
            if broken is not None:
                yield {'src': 'synth', 'diagram': broken, 'comp': None, 'drv': drv, 'edits': [],
                       'entry': r.choice(['mk', 'build']), 'perm': r.randint(1, 1 << 30), 'unresolved': True}
        if i % 3 == 1:
            # the file gen_sql_schema.main writes, character by character (rows in modeled order: the order of the
            # CREATE UNIQUE INDEX lines, of the key lists and of equal-numbered CREATE ROP lines is then defined)
            nm = r.choice(choices)
            yield {'src': 'synth', 'diagram': d, 'comp': nm, 'drv': drv, 'edits': [],
                   'entry': 'sqltext', 'perm': None}


# --------------------------------------------------------------------------- implementation side

def _diagram_of(case):
    if case['src'] == 'real':
        return _ctx['real'][case['model']]['diagram']
    return case['diagram']


def _loader_for(case, tmpdir):
    """(loader holding the population, path of the .xtuml file)"""
    import random
    ooaofooa = _ctx['ooaofooa']
    l = _clone(ooaofooa, _ctx['base'])
    rnd = random.Random(case['perm']) if case.get('perm') else None
    if case['src'] == 'real':
        info = _ctx['real'][case['model']]
        tail = list(info['statements'][_ctx['nbase']:])
        if rnd is not None:
            rnd.shuffle(tail)
        l.statements = list(_ctx['base'].statements) + tail
        return l, info['path']
    text = E.encode(case['diagram'], rnd)
    path = os.path.join(tmpdir, 'model.xtuml')
    with open(path, 'w', encoding='utf-8') as f:
        f.write(text)
    l.input(text, 'model.xtuml')
    return l, path


def _reload(text):
    """definitions obtained by loading SQL text with xtuml.ModelLoader"""
    xtuml = _ctx['xtuml']
    l = xtuml.ModelLoader()
    l.input(text)
    return E.canon_metamodel(l.build_metamodel())


def run_impl(case):
    xtuml, ooaofooa, bridgepoint = _ctx['xtuml'], _ctx['ooaofooa'], _ctx['bridgepoint']
    d0 = _diagram_of(case)
    name, drv, edits, entry = case['comp'], case['drv'], case['edits'], case['entry']
    fails = []
    stats = {'src_' + case['src']: 1, 'entry_' + entry: 1, 'edits': len(edits),
             'comp_' + ('none' if name is None else 'named'): 1, 'derived_' + str(drv): 1}
    for e in edits:
        stats['edit_' + e[0]] = stats.get('edit_' + e[0], 0) + 1
    for r in d0['rels']:
        stats['rel_' + r['kind'][0]] = stats.get('rel_' + r['kind'][0], 0) + 1

    def fail(sig, what):
        fails.append({'sig': sig, 'what': '%s [component=%r derived=%r entry=%s edits=%s]' % (
            what, name, drv, entry, json.dumps(edits))})

    d1 = d0
    for e in edits:
        d1 = E.py_apply_edit(d1, e)
    sel0, sel1 = E.py_select_comp(d0, name), E.py_select_comp(d1, name)
    unresolved = sel0[0] == 'ok' and not E.py_resolved(d0, sel0[1])
    stats['unresolved'] = int(unresolved)
    if unresolved:
        return _run_unresolved(case, stats)
    want0 = E.py_extract(d0, sel0[1], drv) if sel0[0] == 'ok' else None
    want1 = E.py_extract(d1, sel1[1], drv) if sel1[0] == 'ok' else None
    def0 = want0 is not None and E.py_definable(want0)
    def1 = want1 is not None and E.py_definable(want1)
    stats['open_scope'] = int((want0 is not None and not def0) or (want1 is not None and not def1))

    with tempfile.TemporaryDirectory(dir=_ctx['tmp']) as tmpdir:
        loader, path = _loader_for(case, tmpdir)
        if entry == 'sqltext':
            out = os.path.join(tmpdir, 'schema.sql')
            argv = ['gen_sql_schema', '-o', out] + (['-c', name] if name is not None else []) + \
                   (['-d'] if drv else []) + [path]
            import logging
            saved = sys.argv
            sys.argv = argv
            try:
                from bridgepoint import gen_sql_schema
                gen_sql_schema.main()
            finally:
                sys.argv = saved
                logging.disable(logging.CRITICAL)
            text = open(out, encoding='utf-8').read()
            want = E.py_sql_text(d0, sel0[1], drv)
            if text != want:
                k = next((j for j in range(min(len(text), len(want))) if text[j] != want[j]), min(len(text), len(want)))
                fail('sql-text', 'the SQL file written by gen_sql_schema differs from the specified text at offset %d: written '
                     '%r, specified %r' % (k, text[max(0, k - 60):k + 60], want[max(0, k - 60):k + 60]))
            stats['sql_chars'] = len(text)
            key = hashlib.sha1(json.dumps(case, sort_keys=True, default=str).encode()).hexdigest()
            return {'obs': ['text', text], 'd_fail': fails[:3], 'nontrivial': 'CREATE ROP' in text and 'INDEX' in text,
                    'key': key, 'stats': stats}
        try:
            if entry == 'mk':
                m = loader.build_metamodel()
                if case.get('audit'):
                    _audit(m, d0)
                c_c = m.select_any('C_C', xtuml.where_eq(Name=name)) if name is not None else None
                if name and c_c is None:
                    raise ooaofooa.OoaOfOoaException('no such component (harness)')
                got0 = E.canon_metamodel(ooaofooa.mk_component(m, c_c, drv))
                got1 = got0
                if edits:
                    for e in edits:
                        E.pop_apply_edit(m, e)
                    c_c = m.select_any('C_C', xtuml.where_eq(Name=name)) if name is not None else None
                    try:
                        comp = ooaofooa.mk_component(m, c_c, drv)
                    except xtuml.MetaModelException:
                        raise _AfterEdits(got0)
                    got1 = E.canon_metamodel(comp)
                    text = xtuml.serialize_schema(comp) + xtuml.serialize_unique_identifiers(comp)
                    back = _reload(text)
                    if back != got1:
                        fail('reload-differs', 'the serialized schema of the edited component loads back to %s, the '
                             'component defines %s' % (json.dumps(back), json.dumps(got1)))
            elif entry == 'build':
                comp = loader.build_component(name, drv)
                got0 = got1 = E.canon_metamodel(comp)
                text = xtuml.serialize_schema(comp) + xtuml.serialize_unique_identifiers(comp)
                back = _reload(text)
                if back != got0:
                    fail('reload-differs', 'serialize_schema + serialize_unique_identifiers load back to %s, the '
                         'component defines %s' % (json.dumps(back), json.dumps(got0)))
            elif entry == 'load':
                comp = bridgepoint.load_component(path, name) if case['src'] == 'synth' or not case.get('perm') \
                    else bridgepoint.load_component([path], name)
                got0 = got1 = E.canon_metamodel(comp)
            elif entry == 'main':
                out = os.path.join(tmpdir, 'schema.sql')
                argv = ['gen_sql_schema', '-o', out] + (['-c', name] if name is not None else []) + \
                       (['-d'] if drv else []) + [path]
                got0 = got1 = _run_main(argv, out)
                direct = E.canon_metamodel(loader.build_component(name, drv))
                if direct != got0:
                    fail('reload-differs', 'the SQL schema written by gen_sql_schema loads back to %s, '
                         'build_component defines %s' % (json.dumps(got0), json.dumps(direct)))
            else:
                raise ValueError(entry)
            obs = ['ok', got0, got1]
        except ooaofooa.OoaOfOoaException:
            obs = ['error', 'OoaOfOoaException']
        except _AfterEdits as e:
            obs = ['ok-error', e.args[0], 'MetaModelException']
        except xtuml.MetaModelException:
            # define_class / define_association refused a definition (UnknownClassException is a MetaModelException)
            obs = ['error', 'MetaModelException']
        except SystemExit as e:
            obs = ['error', 'SystemExit(%s)' % (e.code,)]

    if obs[0] == 'ok' and want0 is not None and not (def0 and def1):
        fail('dangling-association-accepted', 'a relationship of the component has a class outside the component (or an '
             'unknown target key), no association can be defined for it, yet a component was built: %s'
             % json.dumps(obs[2]))
    elif obs[0] == 'ok-error':
        if not def0 or obs[1] != want0:
            fail(_first_diff(obs[1], want0) if want0 else 'unknown-component-accepted',
                 'the component defines %s, the class model specifies %s' % (json.dumps(obs[1]), json.dumps(want0)))
        elif def1:
            fail('component-rejected', 'after the edits MetaModelException was raised although every definition is possible')
    elif obs == ['error', 'MetaModelException']:
        if def0 and (not edits or entry != 'mk'):
            fail('component-rejected', 'MetaModelException raised although every definition is possible')
        elif def0:
            fail('component-rejected', 'MetaModelException raised before the edits although every definition is possible')
    elif obs[0] == 'ok':
        if want0 is None:
            fail('unknown-component-accepted', 'component %r does not exist but a model was built' % (name,))
        else:
            if obs[1] != want0:
                fail(_first_diff(obs[1], want0), 'the component defines %s, the class model specifies %s'
                     % (json.dumps(obs[1]), json.dumps(want0)))
            elif obs[2] != want1:
                fail('edit:' + _first_diff(obs[2], want1), 'after the edits the component defines %s, the edited class '
                     'model specifies %s (before the edits: %s)' % (json.dumps(obs[2]), json.dumps(want1),
                                                                    json.dumps(obs[1])))
    else:
        if want0 is not None:
            fail('component-rejected', '%s raised although the component / whole model can be built' % obs[1])
    in_scope = want1 is not None and any(item[0][1] for g in want1[1] for item in g[1])
    nontrivial = bool(in_scope and (not edits or want0 != want1))
    key = hashlib.sha1(json.dumps(case, sort_keys=True, default=str).encode()).hexdigest()
    return {'obs': obs, 'd_fail': fails[:3], 'nontrivial': nontrivial, 'key': key, 'stats': stats}


def _run_unresolved(case, stats):
    """a relationship in scope refers to a row that does not exist: outside the property's domain (D demands nothing);
    the ending of the real build is compared with the model's (K)"""
    xtuml, ooaofooa = _ctx['xtuml'], _ctx['ooaofooa']
    name, drv = case['comp'], case['drv']
    with tempfile.TemporaryDirectory(dir=_ctx['tmp']) as tmpdir:
        loader, _ = _loader_for(case, tmpdir)
        try:
            if case['entry'] == 'mk':
                m = loader.build_metamodel()
                c_c = m.select_any('C_C', xtuml.where_eq(Name=name)) if name is not None else None
                got = E.canon_metamodel(ooaofooa.mk_component(m, c_c, drv))
            else:
                got = E.canon_metamodel(loader.build_component(name, drv))
            obs = ['ok', got, got]
        except AttributeError:
            obs = ['error', 'AttributeError']
        except xtuml.MetaModelException:
            obs = ['error', 'MetaModelException']
    key = hashlib.sha1(json.dumps(case, sort_keys=True, default=str).encode()).hexdigest()
    return {'obs': obs, 'd_fail': [], 'nontrivial': False, 'key': key, 'stats': stats}


class _AfterEdits(Exception):
    """mk_component raised MetaModelException after the edits; carries the definitions before the edits"""


def _audit(m, d):
    """encoder cross-check (machinery, not a verdict): consistency of the populated classes, decode = diagram"""
    bad = E.check_population(m)
    if bad:
        raise HarnessError('encoder produced an inconsistent ooaofooa population: %s' % '; '.join(bad))
    if E.normal_diagram(E.decode(m)) != E.normal_diagram(d):
        raise HarnessError('decode(load(encode(diagram))) differs from the diagram')


def _run_main(argv, out):
    import logging
    from bridgepoint import gen_sql_schema
    saved = sys.argv
    sys.argv = argv
    try:
        gen_sql_schema.main()
    finally:
        sys.argv = saved
        logging.disable(logging.CRITICAL)
    xtuml = _ctx['xtuml']
    l = xtuml.ModelLoader()
    l.filename_input(out)
    return E.canon_metamodel(l.build_metamodel())


def _first_diff(got, want):
    """a short stable signature of where two canonical schemas differ"""
    gc, wc = {c[0]: c for c in got[0]}, {c[0]: c for c in want[0]}
    if sorted(gc) != sorted(wc):
        return 'class-set'
    for k in sorted(wc):
        if [a[0] for a in gc[k][1]] != [a[0] for a in wc[k][1]]:
            return 'attributes'
        if gc[k][1] != wc[k][1]:
            return 'attribute-type'
        if gc[k][2] != wc[k][2]:
            return 'identifiers'
    gg, wg = {g[0]: g[1] for g in got[1]}, {g[0]: g[1] for g in want[1]}
    if sorted(gg, key=repr) != sorted(wg, key=repr):
        return 'association-set'
    for k in wg:
        if len(gg[k]) != len(wg[k]):
            return 'association-count'
        for a, b in zip(gg[k], wg[k]):
            for side in (0, 1):
                for idx, nm in ((0, 'kind'), (1, 'keys'), (2, 'many'), (3, 'conditional'), (4, 'phrase')):
                    if a[side][idx] != b[side][idx]:
                        return 'association-%s-%s' % ('source' if side == 0 else 'target', nm)
    return 'order'


# --------------------------------------------------------------------------- model side

def model_line(case):
    d = _diagram_of(case)
    name = Sym('none') if case['comp'] is None else case['comp']
    if case['entry'] == 'sqltext':
        return dumps([Sym('c14-sql'), E.diagram_sexp(d), name, bool(case['drv'])])
    return dumps([Sym('c14-edit'), E.diagram_sexp(d), name, bool(case['drv']), [E.edit_sexp(e) for e in case['edits']]])


def model_obs(case, ans):
    if ans[0] == 'error':
        return ['error', str(ans[1])]
    if ans[0] == 'ok-error':
        return ['ok-error', E.canon_schema_sexp(ans[1]), str(ans[2])]
    if case['entry'] == 'sqltext':
        return ['text', ans[1]]
    s0, s1, s2 = (E.canon_schema_sexp(x) for x in ans[1:4])
    if s1 != s2:
        return ['model-inconsistent', s1, s2]
    return ['ok', s0, s1]


def case_from_json(c):
    return c


# --------------------------------------------------------------------------- shrinking

def shrink_candidates(case):
    edits = case['edits']
    for i in range(len(edits)):
        c = dict(case)
        c['edits'] = edits[:i] + edits[i + 1:]
        yield c
    if case['src'] != 'synth':
        return
    d = case['diagram']
    used_attrs = set()
    for r in d['rels']:
        k = r['kind']
        for rs in ([k[3]] if k[0] == 'simple' else [k[4], k[5]] if k[0] == 'linked' else
                   [s[1] for s in k[2]] if k[0] == 'subsup' else []):
            for x in rs:
                used_attrs.update(x)
    for c in d['classes']:
        for a in c['attrs']:
            if a['kind'][0] == 'ref':
                used_attrs.add(a['kind'][2])
    edit_ids = {x for e in edits for x in e[1:3] if isinstance(x, int)}
    for i, r in enumerate(d['rels']):
        if r['id'] in edit_ids:
            continue
        c = copy.deepcopy(case)
        del c['diagram']['rels'][i]
        yield c
    used_classes = {x for r in d['rels'] for x in E.rel_classes(r)}
    for i, k in enumerate(d['classes']):
        if k['id'] in used_classes or k['id'] in edit_ids or any(
                a['kind'][0] == 'ref' and a['kind'][1] == k['id'] for c2 in d['classes'] for a in c2['attrs']):
            continue
        c = copy.deepcopy(case)
        del c['diagram']['classes'][i]
        yield c
    for ci, k in enumerate(d['classes']):
        for ai, a in enumerate(k['attrs']):
            if a['id'] in used_attrs or a['id'] in edit_ids or any(
                    e[0] == 'reorder' and e[1] == k['id'] for e in edits):
                continue
            c = copy.deepcopy(case)
            kk = c['diagram']['classes'][ci]
            del kk['attrs'][ai]
            for i in kk['idents']:
                i['attrs'] = [x for x in i['attrs'] if x != a['id']]
            yield c
    for i, t in enumerate(d['dts']):
        if t.get('predef'):
            continue
        if any(a['kind'][0] != 'ref' and a['kind'][1] == t['id'] for k in d['classes'] for a in k['attrs']) or any(
                u['kind'][0] == 'user' and u['kind'][1] == t['id'] for u in d['dts']) or t['id'] in {
                    e[3] for e in edits if e[0] == 'retype'}:
            continue
        c = copy.deepcopy(case)
        del c['diagram']['dts'][i]
        yield c
