"""C14 — Component extraction mirrors the BridgePoint class model.

A case is a BridgePoint population, a component name (or none), the derived-attributes flag, an edit
script and an entry point.  The population is either

  synth   a class diagram from `ooa_encoder.gen_diagram` (all relationship shapes, asymmetric ends,
          reflexive relationships with phrases, multi-attribute identifiers and referentials, user /
          enumeration / unsupported types, nested packages and components), encoded as the INSERT
          statements of an .xtuml file with the rows in a PRNG-permuted order, or
  real    tests/resources/Simple_Model.xtuml or the model embedded in tests/test_bridgepoint/
          test_interpret.py, loaded with the statements of the file in a PRNG-permuted order; its
          diagram is read off the loaded rows by `ooa_encoder.decode`.

The edit script (rename / retype / reorder attributes, set Mult / Cond / Txt_Phrs of an end, move a class
or a relationship to another package / component / out of every container) is applied directly to the
loaded ooaofooa population (setattr / relate / unrelate).  Entry points: `mk_component`,
`ModelLoader.build_component`, `bridgepoint.load_component` (file), `gen_sql_schema.main` (file in, SQL
file out, re-loaded with `xtuml.ModelLoader`).

  D  the definitions built (before and after the edits; canonical form: classes by key letters,
     identifiers by number, associations by relationship number and then by content, key PAIRS sorted)
     equal the specification `ooa_encoder.py_extract` of the (edited) diagram — so an edit changes exactly
     the corresponding part; an unknown component name raises OoaOfOoaException; a relationship of the component whose class lies outside
     it (or two classes with the same upper-cased key letters) makes the build raise MetaModelException; the SQL written by
     gen_sql_schema / xtuml.serialize_schema + serialize_unique_identifiers loads back to the same
     definitions; the file written by gen_sql_schema.main equals, character by character, the text an independent
     printer (`ooa_encoder.py_sql_text`) produces for the diagram, CREATE UNIQUE INDEX lines included.
  K  the same canonical definitions from the Lean model: `extract d`, `extract (applyEdits es d)` and
     `schemaEdits (resolveAll d es) (extract d)` (lean/PyxModel/Extract).

Further families
  rows      every R_REL row, whatever hangs on it (`ooa_encoder.gen_row_rels`): unformalised simple relationships (two
            R_PART rows, no R_FORM; also reflexive), linked relationships whose link class holds no / only one side's
            referential attributes, subtypes without referential attributes, subtype relationships without subtypes (with
            and without R_SUPER), R_COMP, and populations no BridgePoint model holds: no R206 subtype row, two of them,
            R_SIMP with one / no participant or R_FORM only, R_FORM with two participants, R_ASSOC without R_AONE / R_AOTH /
            R_ASSR, R_SUB rows without R_SUPER, a participant of a class that does not exist.  D: the formalised
            relationships define exactly their associations (no keyless association under the number of a formalised
            relationship, none that belongs to no relationship in scope), and the SQL schema of the built component loads back
            to the same definitions, `CREATE ROP REF_ID R1 FROM 1C B () TO M A ();` included; what is defined for a
            relationship that is NOT formalised (a keyless association, for an unformalised simple relationship directed by
            the order of its R_PART rows) is outside the property's clauses - documented behaviour, compared by K; scopes
            with missing rows are outside the property.  K: every ending (definitions / AttributeError / TypeError /
            MetaModelException) equals `buildAll` of the model.  Entries mk_component, build_component, gen_sql_schema.main.
  twins     two of a kind: user data types / enumerations / structured types NAMED like a core type (Real, Unique_ID, Boolean,
            any letter case) whose own mapping is another one; a second identifier over the same attributes, two classes with the same key letters (or
            differing in letter case only) in different components, the same relationship number in two containers; every
            entry point, edit scripts (the predicted schema edit is not compared: key letters are unique per scope only).
  cli       the command line of gen_sql_schema.main (long / joined / `=` spellings of -c -d -o, -v, the rows dealt over TWO
            model files, usage errors: no -o / no model path -> exit status 1, nothing written) and the route
            ooaofooa.load_metamodel (one path / two paths) + mk_component.
  pkgref    package references (EP_PKGREF, R1402): the content of a package is also inside the component in which a package
            referring to it lies; D (oracle `py_contained`) and K (the Lean model has the rows: ClassDiagram.pkgrefs).
  unmirrored (owner-C14 round 8) every second case of every family: the columns of the populated ooaofooa classes that are
            NO part of the class diagram (`ooa_encoder.UNMIRRORED`: R_ASSR.Mult - the multiplicity of the LINK class of a
            linked relationship, where the association ends mirror R_AONE / R_AOTH -, C_C.Mult, O_OBJ.Name / Numb,
            O_ATTR.Prefix / Root_Nam / Pfx_Mode consistent with the persisted Name, default values, parse status of derived
            attributes, the cached name columns of O_REF / O_RATTR / O_OIDA, visibility, number ranges) hold other values:
            written into the model file (synthesised diagrams, every entry point) or assigned on the loaded population
            before the first build / between the builds (real models, sessions).  D and K as for the unchanged diagram.
  Expectations are computed from the INPUT: synthesised cases from the generated diagram, real models from the model FILE read
  by the harness's own statement reader (`ooa_encoder.RawPopulation`), never from the population the library loaded; the
  predefined data types from the text of bridgepoint.schema.globals by the same reader.
  session   pattern "memoisation / aliasing / routes": ONE loaded population and ONE loader, first every route (mk_component,
            ModelLoader.build_component, bridgepoint.load_component, gen_sql_schema.main) for one component - all must
            agree with the specification -, then builds of other components / the whole model with either flag,
            interleaved with edits of the population, gen_xsd_schema.build_schema on the same population and scribbling over
            the component built last (attribute lists, identifiers, key lists, link properties); at the end the first
            component again.  D: every build equals the specification of the population as edited so far (loader routes:
            of the untouched model), mk_component leaves the population unchanged (decode before = decode after).
            K: `buildOutcome (applyEdits es d)` per step.
"""
import ast
import copy
import hashlib
import json
import os
import sys
import tempfile

import ooa_encoder as E
from common import HarnessError
from sexp import Sym, dumps

PROP = 'C14'
RULE = ('random class diagrams (1-5 classes, 0-6 relationships of every kind incl. reflexive and derived, 1-7 packages / '
        'components, enumeration / user / unsupported types) x component choice (whole model, every component whose '
        'scope is closed, unknown name, empty name) x derived flag x entry point x random edit scripts (quick: length '
        '0-3, thorough: 0-5), rows shuffled; plus on the two real BridgePoint models every single edit at every '
        'applicable site (rename each attribute, retype each base attribute to each supported type, every permutation '
        'of the attributes of each class up to 4 attributes, each Mult / Cond value and a new phrase at each end, each '
        'class / relationship to each container, each class moved out of / into the component together with its '
        'relationships, each class moved alone - the build must then raise MetaModelException because a relationship of the component lost a class) and random scripts; plus OPEN scopes on synthesised diagrams: components (nested ones, packages inside components) that hold a relationship but not all of its classes, initially or after unrestricted move edits - expected outcome MetaModelException, never a half-defined association; plus the SQL FILE character by character: for every third diagram (rows in modeled order) the text written by gen_sql_schema.main equals the specified text (CREATE TABLE per class sorted by upper-cased key letters, each followed by its CREATE UNIQUE INDEX lines, then the CREATE ROP lines sorted by rel_id). A case is non-trivial when the scope holds a formalised relationship and, '
        'if it has edits, the edits change the result; distinct = distinct case content; plus the families rows (every R_REL '
        'row: unformalised / incomplete / subtype-less relationships, 24 kinds each generated at least 4 times), twins (second '
        'identifier over the same attributes, same key letters in different components, same relationship number in '
        'different containers) and session (4-14 builds by all routes from ONE loaded population, interleaved with edits, '
        'XSD generation and mutation of the built component) - see the module docstring'
        # --- owner-C14 round 8
        '; on every second case of every family the columns of the rows that are no part of the class diagram '
        '(ooa_encoder.UNMIRRORED: multiplicity of the link class R_ASSR.Mult, C_C.Mult, class name / number, attribute '
        'prefix / root, default values, cached name columns, visibility ...) hold other values - in the model file, or '
        'assigned on the loaded population before / between the builds')
EXHAUSTIVE = {'quick': False, 'thorough': False}
ASSUMPTIONS = [
    'unresolved populations (a relationship names a class / attribute row that does not exist) are outside the property: '
    'D demands nothing there, K compares the ending (AttributeError) with buildOutcome of the model',
    'domain: well-formed populations — acyclic containment and user-type chains, one R103 chain per class, distinct '
    'key letters / attribute names per class / relationship numbers / component names, formalised simple relationships, '
    'every relationship in scope has its classes in scope, referred identifiers consist of kept attributes; EP_PKGREF package references are in the Lean model (ClassDiagram.pkgrefs; acyclic containment + reference graph): family pkgref is judged by D (oracle ooa_encoder.py_contained) and compared by K',
    'names are SQL identifiers (reload) and phrases contain no quote: lexical matters belong to C01/C12',
    'family rows: a scope holding a relationship with missing rows / no or two subtype rows is outside the property (D demands '
    'nothing, K compares the ending); at most one such relationship per scope (which exception comes first depends on the '
    'order of the R_REL rows); the order of the R_PART rows of one relationship is part of the diagram and survives the '
    'shuffling of the rows',
    'family twins: the scope of the build has distinct relationship numbers (numbers are unique per package); key letters '
    'need only be distinct within the scope - a scope with two classes of the same key letters must be refused',
]
TRUSTED_EXTRA = ['harness/ooa_encoder.py: diagram -> ooaofooa rows (cross-checked on sampled cases by the ooaofooa '
                 'consistency check restricted to the populated classes and by decode(load(encode d)) = d), '
                 'decode: rows -> diagram, the Python specification py_extract (oracle of D)']
CHUNK = 400
CASE_TIMEOUT_S = 30
BUDGET_S = {'quick': 200, 'thorough': 1500}

_ctx = {}


# --------------------------------------------------------------------------- setup

def _interp_model_text(repo):
    src = open(os.path.join(repo, 'tests', 'test_bridgepoint', 'test_interpret.py'), encoding='utf-8').read()
    for node in ast.parse(src).body:
        if isinstance(node, ast.Assign) and getattr(node.targets[0], 'id', None) == 'model':
            return ast.literal_eval(node.value)
    raise HarnessError('tests/test_bridgepoint/test_interpret.py has no module-level `model` string')


def setup(ctx):
    import xtuml
    import bridgepoint
    from bridgepoint import ooaofooa
    repo = str(ctx.ws.repo)
    base = ooaofooa.Loader()
    nbase = len(base.statements)
    tmp = str(ctx.ws.tmp('c14'))
    interp_path = os.path.join(tmp, 'interp_model.xtuml')
    with open(interp_path, 'w', encoding='utf-8') as f:
        f.write(_interp_model_text(repo))
    real = {}
    for name, path in (('simple', os.path.join(repo, 'tests', 'resources', 'Simple_Model.xtuml')),
                       ('interp', interp_path)):
        l = _clone(ooaofooa, base)
        l.filename_input(path)
        # the diagram of a real model is read off the FILE by the harness's own row reader (never off the population the
        # library loaded: the expectation must not pass through the code under test)
        from bridgepoint import schema
        d = E.decode(E.RawPopulation(schema.globals, open(path, encoding='utf-8').read()))
        if d.get('rows'):
            raise HarnessError('real model %s holds a relationship outside the regular shapes (rows: %d)'
                               % (name, len(d['rows'])))
        real[name] = {'path': path, 'statements': l.statements, 'diagram': d}
    _ctx.update(xtuml=xtuml, bridgepoint=bridgepoint, ooaofooa=ooaofooa, base=base, nbase=nbase, tmp=tmp, real=real)
    E.predefined_dts()


def _clone(ooaofooa, base):
    l = ooaofooa.Loader.__new__(ooaofooa.Loader)
    l.__dict__.update(base.__dict__)
    l.statements = list(base.statements)
    return l


# --------------------------------------------------------------------------- generation

def _comp_id(d, name):
    st = E.py_select_comp(d, name)
    return st[1] if st[0] == 'ok' else None


def _script(rng, d, name, n, kinds=None):
    """a random edit script of length <= n that leaves the scope of component `name` closed"""
    cur, out = d, []
    for _ in range(n):
        e = E.gen_edit(rng, cur, _comp_id(cur, name), kinds)
        if e is None:
            break
        nxt = E.py_apply_edit(cur, e)
        if E.py_select_comp(nxt, name)[0] != 'ok' or not E.scope_valid(nxt, _comp_id(nxt, name)):
            continue
        cur = nxt
        out.append(e)
    return out


N_BENIGN = 14
ROW_KINDS = ['unformal', 'unformal-reflexive', 'linked-unformal', 'linked-unformal-rows', 'sub-unformal', 'zero-subs',
             'zero-subs-no-super', 'comp-rows', 'unformal', 'form-two-parts', 'two-subtypes-comp', 'linked-half',
             'unformal', 'two-subtypes-simp',
             'no-subtype', 'one-part', 'form-only', 'simp-bare', 'linked-no-aone', 'linked-no-aoth', 'linked-no-assr',
             'linked-bare', 'subs-no-super', 'two-subtypes-assoc', 'unformal-ghost']


def _row_classes(w):
    out = [e[0] for e in [w['form'], w['aone'], w['aoth']] + list(w['parts']) if e is not None]
    out += [x for x in (w['assr'], w['super']) if x is not None] + [sb[0] for sb in w['subs']]
    return out


def _rows_scope_closed(d, name):
    """every row-given relationship inside the component has its classes inside (or names a class that does not exist)"""
    comp = _comp_id(d, name)
    if comp is None:
        return True
    inside = {c['id'] for c in d['classes'] if E.py_contained(d, comp, c['parent'])}
    known = {c['id'] for c in d['classes']}
    return all(c in inside or c not in known for x in d.get('rows', []) if E.py_contained(d, comp, x['parent'])
               for c in _row_classes(x['rows']))


def _numbers_distinct(d, name):
    """the relationships in the scope of component `name` carry distinct numbers"""
    comp = _comp_id(d, name)
    nums = [x['numb'] for x in d['rels'] if E.py_in_scope(d, comp, x['parent'])]
    return len(set(nums)) == len(nums)


def _apply_all(d, edits):
    for e in edits:
        d = E.py_apply_edit(d, e)
    return d


def _scope_definable(d, name, drv):
    st = E.py_select_comp(d, name)
    return st[0] == 'ok' and E.py_resolved(d, st[1]) and E.py_definable(E.py_extract(d, st[1], drv))


def _move_with_rels(d, c, target):
    """script: move class `c` and every relationship it takes part in to `target`"""
    return [['move-rel', r['id'], target] for r in d['rels'] if c in E.rel_classes(r)] + [['move-class', c, target]]


def _real_sites(d, name):
    """every single edit at every applicable site of a real model"""
    import itertools
    sup = [t['id'] for t in d['dts'] if E.py_dt_type(d, t['id'])]
    parents = [None] + [['comp' if k['comp'] else 'pkg', k['id']] for k in d['containers']]
    for c in d['classes']:
        for a in c['attrs']:
            yield [['rename', c['id'], a['id'], a['name'] + '_renamed']]
            if a['kind'][0] != 'ref' and E.py_dt_type(d, a['kind'][1]):
                for t in sup:
                    if t != a['kind'][1]:
                        yield [['retype', c['id'], a['id'], t]]
            elif a['kind'][0] == 'ref':
                # the own R114 type of a referential attribute: no effect, neither now nor after the base is retyped
                yield [['retype', c['id'], a['id'], sup[len(a['name']) % len(sup)]]]
                base = E._find(d['classes'], 'id', a['kind'][1])
                ba = E._find(base['attrs'], 'id', a['kind'][2]) if base else None
                if ba is not None and ba['kind'][0] == 'base' and E.py_dt_type(d, ba['kind'][1]):
                    other = [t for t in sup if t != ba['kind'][1]]
                    yield [['retype', c['id'], a['id'], ba['kind'][1]], ['retype', base['id'], ba['id'], other[0]]]
        ids = [a['id'] for a in c['attrs']]
        if 2 <= len(ids) <= 4:
            for perm in itertools.permutations(ids):
                if list(perm) != ids:
                    yield [['reorder', c['id'], list(perm)]]
        for p in parents:
            if p != c['parent']:
                yield [['move-class', c['id'], p]]
                yield _move_with_rels(d, c['id'], p)
                # ... and back again
                yield _move_with_rels(d, c['id'], p) + _move_with_rels(d, c['id'], c['parent'])
    for r in d['rels']:
        k = r['kind'][0]
        for sel in ({'simple': ['form', 'part'], 'linked': ['one', 'oth']}.get(k, [])):
            for v in (False, True):
                yield [['mult', r['id'], sel, v]]
                yield [['cond', r['id'], sel, v]]
            yield [['phrase', r['id'], sel, 'edited %s phrase' % sel]]
            yield [['phrase', r['id'], sel, '']]
        for p in parents:
            if p != r['parent']:
                yield [['move-rel', r['id'], p]]


def _valid_script(d, name, edits):
    cur = d
    for e in edits:
        cur = E.py_apply_edit(cur, e)
    st = E.py_select_comp(cur, name)
    return st[0] == 'ok' and E.scope_valid(cur, st[1])


# --- owner-C14 round 8: family `unmirrored` - the columns of the ooaofooa rows that are NO part of the class diagram
# (ooa_encoder.UNMIRRORED: R_ASSR.Mult - the multiplicity of the LINK class of a linked relationship -, C_C.Mult, class
# names / numbers beside the key letters, attribute prefix / root, default values, cached name columns, visibility ...)
# take other values: on every second case of every family.  Synthesised diagrams carry the seed as d['unmirrored'] (the
# values are written into the model file, so every entry point sees them); real models as case['unmirrored'] (assigned
# on the loaded population: even seed before the first build, odd seed between the two builds, together with the
# edits).  The diagram - hence the specification D and the model K - is unchanged by construction.
def _unmirrored(r, d=None):
    seed = r.fork('unmirrored').randint(1, 1 << 30)
    if d is not None:
        d['unmirrored'] = seed
    return seed


def _wrap_generate(gen):
    def generate(ctx):
        n = 0
        for case in gen(ctx):
            n += 1
            if n % 2 == 0 and not case.get('unresolved'):
                r = ctx.rng.fork('unmirrored-case', n)
                if case['src'] == 'synth' and case['diagram'].get('unmirrored') is None:
                    case['diagram'] = dict(case['diagram'])
                    _unmirrored(r, case['diagram'])
                    if case.get('family') == 'session':
                        # ... and once more, with other values, on the loaded population between two builds
                        k = r.randint(1, len(case['steps']) - 1)
                        case['steps'] = case['steps'][:k] + [['unmirrored', r.randint(1, 1 << 30)]] + case['steps'][k:]
                elif case['src'] == 'real' and case['entry'] == 'mk':
                    case['unmirrored'] = _unmirrored(r)
            yield case
    return generate
# --- end owner-C14 round 8


def generate(ctx):
    rng = ctx.rng.fork('gen')
    # ---- real models: every single edit at every site, whole model and each component, both flags
    for model, info in sorted(_ctx['real'].items()):
        d = info['diagram']
        names = E.comp_choices(d)
        i = 0
        for name in names:
            for drv in (False, True):
                for entry in ('mk', 'build', 'load', 'main'):
                    if entry == 'load' and drv:
                        continue
                    yield {'src': 'real', 'model': model, 'comp': name, 'drv': drv, 'edits': [], 'entry': entry,
                           'perm': rng.randint(1, 1 << 30)}
                for edits in _real_sites(d, name):
                    # scripts that leave a relationship of the component without one of its classes are kept:
                    # the build must then raise MetaModelException
                    i += 1
                    if drv and i % ctx.pick(3, 1):
                        continue                # quick tier: with derived attributes every third site only
                    yield {'src': 'real', 'model': model, 'comp': name, 'drv': drv, 'edits': edits, 'entry': 'mk',
                           'perm': rng.randint(1, 1 << 30) if i % 3 == 0 else None}
        for j in range(ctx.pick(40, 600)):
            r = rng.fork(model, j)
            name = r.choice(names)
            edits = _script(r, d, name, r.randint(2, ctx.pick(4, 8)))
            yield {'src': 'real', 'model': model, 'comp': name, 'drv': r.random() < 0.5, 'edits': edits, 'entry': 'mk',
                   'perm': r.randint(1, 1 << 30)}
        for name in ('NoSuchComponent', ''):
            yield {'src': 'real', 'model': model, 'comp': name, 'drv': False, 'edits': [], 'entry': 'build', 'perm': None}
    # ---- every R_REL row, whatever hangs on it: unformalised simple / linked / subtype relationships, subtype
    #      relationships without subtypes, R_COMP, missing end rows, no or two R206 subtype rows
    for j in range(ctx.pick(120, 2000)):
        r = rng.fork('rows', j)
        base = E.gen_diagram(r, max_classes=4)
        ids = iter(range(10 ** 7 + 1000 * j, 10 ** 7 + 1000 * (j + 1)))
        want = [ROW_KINDS[j % len(ROW_KINDS)]] + ([ROW_KINDS[(j * 7 + 3) % N_BENIGN]] if j % 3 == 0 else []) \
            if j < 4 * len(ROW_KINDS) else None
        d, labels = E.gen_row_rels(r, base, lambda: next(ids), want)
        if not labels:
            continue
        names = [nm for nm in E.comp_choices(d) if _rows_scope_closed(d, nm)]
        holders = [nm for nm in names if nm is not None and any(
            E.py_contained(d, _comp_id(d, nm), x['parent']) for x in d['rows'] + d['rels'][len(base['rels']):])]
        name = r.choice(holders) if (holders and r.random() < 0.5) else None
        yield {'src': 'synth', 'family': 'rows', 'diagram': d, 'comp': name, 'drv': r.random() < 0.5, 'edits': [],
               'entry': r.choice(['mk', 'mk', 'build', 'main']), 'perm': r.randint(1, 1 << 30), 'labels': labels,
               'audit': j % 3 == 0}
    # ---- package references (EP_PKGREF, R1402): the content of a package is also inside the component in which a package
    #      REFERRING to it lies.  D (oracle `py_contained`) and K (the Lean model follows the EP_PKGREF rows as well).
    for j in range(ctx.pick(70, 600)):
        r = rng.fork('pkgref', j)
        base = E.gen_diagram(r, max_classes=4)
        ids = iter(range(2 * 10 ** 7 + 10 * j, 2 * 10 ** 7 + 10 * (j + 1)))
        d, gained = E.add_package_references(r, base, lambda: next(ids))
        gained = [nm for nm in gained if E.scope_valid(d, _comp_id(d, nm)) and _numbers_distinct(d, nm)]
        if not gained:
            continue
        entry = r.choice(['mk', 'build', 'main', 'load'])
        yield {'src': 'synth', 'diagram': d, 'comp': r.choice(gained), 'drv': r.random() < 0.5 and entry != 'load', 'edits': [],
               'entry': entry, 'perm': r.randint(1, 1 << 30), 'audit': j % 3 == 0}
        # --- pkgref-in-model: no 'nomodel' any more - the Lean model has the EP_PKGREF rows (ClassDiagram.pkgrefs), K compares
    # ---- the command line of gen_sql_schema (long / joined / = spellings, -v, several model paths, usage errors) and the
    #      ooaofooa.load_metamodel route
    styles = ['long', 'eq', 'verbose', 'joined', 'split', 'split', 'no-output', 'no-model']
    for j in range(ctx.pick(40, 400)):
        r = rng.fork('cli', j)
        d = E.gen_diagram(r, max_classes=4)
        names = E.comp_choices(d)
        name = r.choice(names)
        if j % 5 == 4:
            yield {'src': 'synth', 'diagram': d, 'comp': name, 'drv': r.random() < 0.5, 'edits': [], 'entry': 'lmk',
                   'cli': r.choice(['one', 'split']), 'perm': r.randint(1, 1 << 30)}
        else:
            yield {'src': 'synth', 'diagram': d, 'comp': name, 'drv': r.random() < 0.5, 'edits': [], 'entry': 'main',
                   'cli': styles[j % len(styles)], 'perm': r.randint(1, 1 << 30)}
    # ---- two of a kind: a second identifier over the same attributes, classes with the same key letters (also differing
    #      in letter case only) in different components, the same relationship number in different containers
    for j in range(ctx.pick(60, 1200)):
        r = rng.fork('twins', j)
        d = E.gen_diagram(r, max_classes=4, twin_idents=(j % 3 != 1), dup_key_letters=(j % 3 != 0),
                          dup_rel_numbers=(j % 2 == 0), core_named_types=(j % 2 == 1))
        names = [nm for nm in E.comp_choices(d) if _numbers_distinct(d, nm)]
        if not names:
            continue
        inner = [nm for nm in names if nm is not None]
        name = r.choice(inner) if (inner and r.random() < 0.7) else r.choice(names)
        drv = r.random() < 0.5
        entry = r.choice(['mk', 'mk', 'build', 'main', 'load'])
        if entry == 'load':
            drv = False
        edits = []
        if entry == 'mk' and r.random() < 0.6 and _scope_definable(d, name, drv):
            cand = _script(r, d, name, r.randint(1, 3), ['rename', 'retype', 'reorder', 'mult', 'cond', 'phrase'])
            if _valid_script(d, name, cand) and _scope_definable(_apply_all(d, cand), name, drv):
                edits = cand
        yield {'src': 'synth', 'diagram': d, 'comp': name, 'drv': drv, 'edits': edits, 'entry': entry,
               'perm': r.randint(1, 1 << 30), 'audit': j % 4 == 0, 'twins': True}
    # ---- sessions: several builds in ONE process from ONE loaded population (and one loader) - every route on the
    #      untouched model, then builds of different components with either flag, interleaved with edits of the population,
    #      XSD generation from the same population and mutation of the component built last; nothing may be remembered
    for j in range(ctx.pick(45, 900)):
        r = rng.fork('session', j)
        d = E.gen_diagram(r, max_classes=4, twin_idents=(j % 3 == 0), dup_key_letters=(j % 4 == 1),
                          dup_rel_numbers=(j % 4 == 3), core_named_types=(j % 3 == 2))
        names = [nm for nm in E.comp_choices(d) if _numbers_distinct(d, nm)]
        if not names:
            continue
        comps = [nm for nm in names if nm is not None]
        nm0, drv0 = r.choice(comps or names), r.random() < 0.5
        steps = [['build', route, nm0, drv0] for route in (['mk', 'build', 'main'] + ([] if drv0 else ['load']))]
        cur = d
        for _ in range(r.randint(4, ctx.pick(7, 10))):
            x = r.random()
            if x < 0.4:
                steps.append(['build', r.choice(['mk', 'mk', 'mk', 'build']), r.choice(names), r.random() < 0.5])
            elif x < 0.5 and comps:
                steps.append(['xsd', r.choice(comps)])
            elif x < 0.65:
                steps.append(['mutate'])
            else:
                e = E.gen_edit(r, cur, _comp_id(cur, nm0))
                if e is None:
                    continue
                nxt = E.py_apply_edit(cur, e)
                if all(E.py_select_comp(nxt, nm)[0] == 'ok' and E.scope_valid(nxt, _comp_id(nxt, nm)) for nm in names):
                    cur = nxt
                    steps.append(['edit', e])
                    if r.random() < 0.7:
                        steps.append(['build', 'mk', nm0 if r.random() < 0.5 else r.choice(names), r.random() < 0.5])
        steps.append(['build', 'mk', nm0, drv0])
        steps.append(['build', 'build', nm0, drv0])
        yield {'src': 'synth', 'family': 'session', 'diagram': d, 'comp': nm0, 'drv': drv0, 'edits': [], 'entry': 'session',
               'steps': steps, 'perm': r.randint(1, 1 << 30), 'audit': j % 3 == 0}
    # ---- synthesised diagrams
    n = ctx.pick(270, 5000)
    for i in range(n):
        r = rng.fork('synth', i)
        d = E.gen_diagram(r, max_classes=ctx.pick(5, 7), core_named_types=(i % 5 == 3))
        if i % 3 == 2:
            # NON-EMPTY descriptions on every element kind (--, <, &, quotes, newlines): no part of what is mirrored
            d['descr'] = r.randint(1, 1 << 30)
        if i % 3 == 1:
            # referential attributes with a data type of their own across R114 (not same_as<Base_Attribute>)
            d['ref_types'] = r.randint(1, 1 << 30)
        choices = E.comp_choices(d)
        x = r.random()
        if x < 0.04:
            name = 'NoSuchComponent'
        elif x < 0.08:
            name = ''
        else:
            name = r.choice(choices[1:]) if (len(choices) > 1 and r.random() < 0.7) else None
        drv = r.random() < 0.5
        entry = r.choice(['mk', 'mk', 'mk', 'build', 'build', 'load', 'main'])
        if name == 'NoSuchComponent':
            entry = r.choice(['build', 'load', 'main'])
        if entry == 'load':
            drv = False
        edits = []
        if entry == 'mk' and r.random() < 0.75:
            edits = _script(r, d, name, r.randint(1, ctx.pick(3, 5)))
        yield {'src': 'synth', 'diagram': d, 'comp': name, 'drv': drv, 'edits': edits, 'entry': entry,
               'perm': r.randint(1, 1 << 30), 'audit': i % 4 == 0}
        # ---- open scopes: a component that holds a relationship but not all of its classes (initially or after
        #      unrestricted move edits), nested components and packages inside components included
        opened = [k['name'] for k in d['containers'] if k['comp'] and not E.scope_valid(d, k['id'])]
        if opened and i % 2 == 0:
            yield {'src': 'synth', 'diagram': d, 'comp': r.choice(opened), 'drv': drv, 'edits': [],
                   'entry': r.choice(['mk', 'build', 'load', 'main']) if not drv else r.choice(['mk', 'build', 'main']),
                   'perm': r.randint(1, 1 << 30)}
        comps = [k['name'] for k in d['containers'] if k['comp']]
        if comps and i % 3 == 0:
            nm = r.choice(comps)
            free, cur = [], d
            for _ in range(r.randint(1, 4)):
                e = E.gen_edit(r, cur, _comp_id(cur, nm), ['move-class', 'move-rel', 'move-class', 'rename'])
                if e is None:
                    break
                cur = E.py_apply_edit(cur, e)
                free.append(e)
            yield {'src': 'synth', 'diagram': d, 'comp': nm, 'drv': drv, 'edits': free, 'entry': 'mk',
                   'perm': r.randint(1, 1 << 30)}
        if i % 4 == 2:
            # unresolved: a relationship names a class / attribute row that does not exist - the extractor dereferences
            # None (AttributeError); the model reports the same ending (buildOutcome)
            broken = E.break_resolution(r, d, lambda: 10 ** 7 + r.randint(1, 10 ** 6))
            if broken is not None:
                yield {'src': 'synth', 'diagram': broken, 'comp': None, 'drv': drv, 'edits': [],
                       'entry': r.choice(['mk', 'build']), 'perm': r.randint(1, 1 << 30), 'unresolved': True}
        if i % 3 == 1:
            # the file gen_sql_schema.main writes, character by character (rows in modeled order: the order of the
            # CREATE UNIQUE INDEX lines, of the key lists and of equal-numbered CREATE ROP lines is then defined)
            nm = r.choice(choices)
            yield {'src': 'synth', 'diagram': d, 'comp': nm, 'drv': drv, 'edits': [],
                   'entry': 'sqltext', 'perm': None}


generate = _wrap_generate(generate)         # --- owner-C14 round 8: every second case with other unmirrored columns


# --------------------------------------------------------------------------- implementation side

def _diagram_of(case):
    if case['src'] == 'real':
        return _ctx['real'][case['model']]['diagram']
    return case['diagram']


def _loader_for(case, tmpdir):
    """(loader holding the population, path of the .xtuml file)"""
    import random
    ooaofooa = _ctx['ooaofooa']
    l = _clone(ooaofooa, _ctx['base'])
    rnd = random.Random(case['perm']) if case.get('perm') else None
    if case['src'] == 'real':
        info = _ctx['real'][case['model']]
        tail = list(info['statements'][_ctx['nbase']:])
        if rnd is not None:
            rnd.shuffle(tail)
        l.statements = list(_ctx['base'].statements) + tail
        return l, info['path']
    text = E.encode(case['diagram'], rnd)
    path = os.path.join(tmpdir, 'model.xtuml')
    with open(path, 'w', encoding='utf-8') as f:
        f.write(text)
    l.input(text, 'model.xtuml')
    return l, path


def _reload(text):
    """definitions obtained by loading SQL text with xtuml.ModelLoader"""
    xtuml = _ctx['xtuml']
    l = xtuml.ModelLoader()
    l.input(text)
    return E.canon_metamodel(l.build_metamodel())


def run_impl(case):
    xtuml, ooaofooa, bridgepoint = _ctx['xtuml'], _ctx['ooaofooa'], _ctx['bridgepoint']
    d0 = _diagram_of(case)
    name, drv, edits, entry = case['comp'], case['drv'], case['edits'], case['entry']
    fails = []
    stats = {'src_' + case['src']: 1, 'entry_' + entry: 1, 'edits': len(edits),
             'comp_' + ('none' if name is None else 'named'): 1, 'derived_' + str(drv): 1}
    stats['unmirrored'] = int(bool(case.get('unmirrored') or d0.get('unmirrored')))     # --- owner-C14 round 8
    for e in edits:
        stats['edit_' + e[0]] = stats.get('edit_' + e[0], 0) + 1
    for r in d0['rels']:
        stats['rel_' + r['kind'][0]] = stats.get('rel_' + r['kind'][0], 0) + 1
    # --- pkgref-in-model begin
    if d0.get('pkgrefs'):
        stats['pkgref_rows'] = len(d0['pkgrefs'])
        stats['pkgref_cases_model_compared'] = 0 if case.get('nomodel') else 1
    # --- pkgref-in-model end

    def fail(sig, what):
        um = case.get('unmirrored') or d0.get('unmirrored')                 # --- owner-C14 round 8
        fails.append({'sig': sig, 'what': '%s [component=%r derived=%r entry=%s edits=%s]%s' % (
            what, name, drv, entry, json.dumps(edits),
            '' if not um else ' [columns outside the class diagram (ooa_encoder.UNMIRRORED, e.g. R_ASSR.Mult) hold other '
            'values, seed %d: %s]' % (um, 'in the model file' if d0.get('unmirrored') else
                                      'assigned before the first build' if um % 2 == 0 else
                                      'assigned after the first build, with the edits'))})

    if case.get('family') == 'rows':
        return _run_rows(case, stats)
    if case.get('family') == 'session':
        return _run_session(case, stats)
    d1 = d0
    for e in edits:
        d1 = E.py_apply_edit(d1, e)
    sel0, sel1 = E.py_select_comp(d0, name), E.py_select_comp(d1, name)
    unresolved = sel0[0] == 'ok' and not E.py_resolved(d0, sel0[1])
    stats['unresolved'] = int(unresolved)
    if unresolved:
        return _run_unresolved(case, stats)
    want0 = E.py_extract(d0, sel0[1], drv) if sel0[0] == 'ok' else None
    want1 = E.py_extract(d1, sel1[1], drv) if sel1[0] == 'ok' else None
    def0 = want0 is not None and E.py_definable(want0)
    def1 = want1 is not None and E.py_definable(want1)
    stats['open_scope'] = int((want0 is not None and not def0) or (want1 is not None and not def1))

    with tempfile.TemporaryDirectory(dir=_ctx['tmp']) as tmpdir:
        loader, path = _loader_for(case, tmpdir)
        if entry == 'sqltext':
            out = os.path.join(tmpdir, 'schema.sql')
            argv = ['gen_sql_schema', '-o', out] + (['-c', name] if name is not None else []) + \
                   (['-d'] if drv else []) + [path]
            import logging
            saved = sys.argv
            sys.argv = argv
            try:
                from bridgepoint import gen_sql_schema
                gen_sql_schema.main()
            finally:
                sys.argv = saved
                logging.disable(logging.CRITICAL)
            text = open(out, encoding='utf-8').read()
            want = E.py_sql_text(d0, sel0[1], drv)
            if text != want:
                k = next((j for j in range(min(len(text), len(want))) if text[j] != want[j]), min(len(text), len(want)))
                fail('sql-text', 'the SQL file written by gen_sql_schema differs from the specified text at offset %d: written '
                     '%r, specified %r' % (k, text[max(0, k - 60):k + 60], want[max(0, k - 60):k + 60]))
            stats['sql_chars'] = len(text)
            key = hashlib.sha1(json.dumps(case, sort_keys=True, default=str).encode()).hexdigest()
            return {'obs': ['text', text], 'd_fail': fails[:3], 'nontrivial': 'CREATE ROP' in text and 'INDEX' in text,
                    'key': key, 'stats': stats}
        try:
            if entry == 'mk':
                m = loader.build_metamodel()
                if case.get('audit'):
                    _audit(m, d0)
                c_c = m.select_any('C_C', xtuml.where_eq(Name=name)) if name is not None else None
                if name and c_c is None:
                    raise ooaofooa.OoaOfOoaException('no such component (harness)')
                um = case.get('unmirrored')                 # --- owner-C14 round 8 (real models; see _wrap_generate)
                if um and um % 2 == 0:
                    E.pop_set_unmirrored(m, um)
                got0 = E.canon_metamodel(ooaofooa.mk_component(m, c_c, drv))
                got1 = got0
                if edits or (um and um % 2):                # --- owner-C14 round 8: odd seed = between the two builds
                    if um and um % 2:
                        E.pop_set_unmirrored(m, um)
                    for e in edits:
                        E.pop_apply_edit(m, e)
                    c_c = m.select_any('C_C', xtuml.where_eq(Name=name)) if name is not None else None
                    try:
                        comp = ooaofooa.mk_component(m, c_c, drv)
                    except xtuml.MetaModelException:
                        raise _AfterEdits(got0)
                    got1 = E.canon_metamodel(comp)
                    text = xtuml.serialize_schema(comp) + xtuml.serialize_unique_identifiers(comp)
                    back = _reload(text)
                    if back != got1:
                        fail('reload-differs', 'the serialized schema of the edited component loads back to %s, the '
                             'component defines %s' % (json.dumps(back), json.dumps(got1)))
            elif entry == 'build':
                comp = loader.build_component(name, drv)
                got0 = got1 = E.canon_metamodel(comp)
                text = xtuml.serialize_schema(comp) + xtuml.serialize_unique_identifiers(comp)
                back = _reload(text)
                if back != got0:
                    fail('reload-differs', 'serialize_schema + serialize_unique_identifiers load back to %s, the '
                         'component defines %s' % (json.dumps(back), json.dumps(got0)))
            elif entry == 'load':
                comp = bridgepoint.load_component(path, name) if case['src'] == 'synth' or not case.get('perm') \
                    else bridgepoint.load_component([path], name)
                got0 = got1 = E.canon_metamodel(comp)
            elif entry == 'lmk':
                # ooaofooa.load_metamodel (one path, or the rows split over two files) + mk_component
                paths = _split_file(path, tmpdir, case['perm']) if case.get('cli') == 'split' else path
                m = ooaofooa.load_metamodel(paths)
                c_c = m.select_any('C_C', xtuml.where_eq(Name=name)) if name is not None else None
                if name and c_c is None:
                    raise ooaofooa.OoaOfOoaException('no such component (harness)')
                got0 = got1 = E.canon_metamodel(ooaofooa.mk_component(m, c_c, drv))
            elif entry == 'main':
                out = os.path.join(tmpdir, 'schema.sql')
                argv = _sql_argv(case.get('cli'), out, name, drv, path, tmpdir, case.get('perm'))
                got0 = got1 = _run_main(argv, out)
                direct = E.canon_metamodel(loader.build_component(name, drv))
                if direct != got0:
                    fail('reload-differs', 'the SQL schema written by gen_sql_schema loads back to %s, '
                         'build_component defines %s' % (json.dumps(got0), json.dumps(direct)))
            else:
                raise ValueError(entry)
            obs = ['ok', got0, got1]
        except ooaofooa.OoaOfOoaException:
            obs = ['error', 'OoaOfOoaException']
        except _AfterEdits as e:
            obs = ['ok-error', e.args[0], 'MetaModelException']
        except xtuml.MetaModelException:
            # define_class / define_association refused a definition (UnknownClassException is a MetaModelException)
            obs = ['error', 'MetaModelException']
        except _NoOutput as e:
            obs = ['error', 'no-output']
            fail('output-missing', 'gen_sql_schema.main returned normally but did not write %r' % (e.args[0],))
        except SystemExit as e:
            obs = ['error', 'SystemExit(%s)' % (e.code,)]
            if case.get('cli') in ('no-output', 'no-model'):
                # usage error: exit status 1, nothing written; nothing else is demanded
                if e.code != 1:
                    fail('exit-status', 'gen_sql_schema exits with status %r on a usage error' % (e.code,))
                if os.path.exists(os.path.join(tmpdir, 'schema.sql')):
                    fail('output-on-error', 'gen_sql_schema wrote an output file although the command line is incomplete')
                key = hashlib.sha1(json.dumps(case, sort_keys=True, default=str).encode()).hexdigest()
                return {'obs': obs, 'd_fail': fails[:3], 'nontrivial': False, 'key': key, 'stats': stats, 'model_line': None}
    if case.get('cli') in ('no-output', 'no-model') and obs[0] != 'error':
        fail('usage-error-accepted', 'gen_sql_schema ran although the command line lacks %s'
             % ('-o' if case['cli'] == 'no-output' else 'a model path'))

    if obs[0] == 'ok' and want0 is not None and not (def0 and def1):
        fail('dangling-association-accepted', 'a relationship of the component has a class outside the component (or an '
             'unknown target key), no association can be defined for it, yet a component was built: %s'
             % json.dumps(obs[2]))
    elif obs[0] == 'ok-error':
        if not def0 or obs[1] != want0:
            fail(_first_diff(obs[1], want0) if want0 else 'unknown-component-accepted',
                 'the component defines %s, the class model specifies %s' % (json.dumps(obs[1]), json.dumps(want0)))
        elif def1:
            fail('component-rejected', 'after the edits MetaModelException was raised although every definition is possible')
    elif obs == ['error', 'MetaModelException']:
        if def0 and (not edits or entry != 'mk'):
            fail('component-rejected', 'MetaModelException raised although every definition is possible')
        elif def0:
            fail('component-rejected', 'MetaModelException raised before the edits although every definition is possible')
    elif obs[0] == 'ok':
        if want0 is None:
            fail('unknown-component-accepted', 'component %r does not exist but a model was built' % (name,))
        else:
            if obs[1] != want0:
                fail(_first_diff(obs[1], want0), 'the component defines %s, the class model specifies %s'
                     % (json.dumps(obs[1]), json.dumps(want0)))
            elif obs[2] != want1:
                fail('edit:' + _first_diff(obs[2], want1), 'after the edits the component defines %s, the edited class '
                     'model specifies %s (before the edits: %s)' % (json.dumps(obs[2]), json.dumps(want1),
                                                                    json.dumps(obs[1])))
    else:
        if want0 is not None:
            fail('component-rejected', '%s raised although the component / whole model can be built' % obs[1])
    in_scope = want1 is not None and any(item[0][1] for g in want1[1] for item in g[1])
    nontrivial = bool(in_scope and (not edits or want0 != want1))
    key = hashlib.sha1(json.dumps(case, sort_keys=True, default=str).encode()).hexdigest()
    return {'obs': obs, 'd_fail': fails[:3], 'nontrivial': nontrivial, 'key': key, 'stats': stats}


def _run_unresolved(case, stats):
    """a relationship in scope refers to a row that does not exist: outside the property's domain (D demands nothing);
    the ending of the real build is compared with the model's (K)"""
    xtuml, ooaofooa = _ctx['xtuml'], _ctx['ooaofooa']
    name, drv = case['comp'], case['drv']
    with tempfile.TemporaryDirectory(dir=_ctx['tmp']) as tmpdir:
        loader, _ = _loader_for(case, tmpdir)
        try:
            if case['entry'] == 'mk':
                m = loader.build_metamodel()
                c_c = m.select_any('C_C', xtuml.where_eq(Name=name)) if name is not None else None
                got = E.canon_metamodel(ooaofooa.mk_component(m, c_c, drv))
            else:
                got = E.canon_metamodel(loader.build_component(name, drv))
            obs = ['ok', got, got]
        except AttributeError:
            obs = ['error', 'AttributeError']
        except xtuml.MetaModelException:
            obs = ['error', 'MetaModelException']
    key = hashlib.sha1(json.dumps(case, sort_keys=True, default=str).encode()).hexdigest()
    return {'obs': obs, 'd_fail': [], 'nontrivial': False, 'key': key, 'stats': stats}


def _mutate_component(comp):
    """scribble over everything a built component holds (attribute lists, identifiers, key lists, link properties)"""
    for mc in list(comp.metaclasses.values()):
        try:
            if mc.attributes:
                mc.attributes[0] = ('Zz_first', 'STRING')
            mc.attributes.append(('Zz_added', 'INTEGER'))
            for k in list(mc.indices):
                mc.indices[k] = tuple(reversed(mc.indices[k])) + ('Zz',)
            mc.indices['I9'] = ('Zz',)
            mc.referential_attributes.add('Zz')
            mc.identifying_attributes.clear()
        except Exception:
            pass
    for ass in list(comp.associations):
        for keys in (ass.source_keys, ass.target_keys):
            try:
                keys.append('Zz')
                keys.reverse()
            except Exception:
                pass
        for link in (ass.source_link, ass.target_link):
            link.many, link.conditional, link.phrase = (not link.many), (not link.conditional), 'mutated'
            link.key_map['Zz'] = 'Zz'
    del comp.associations[:]
    comp.metaclasses.clear()


def _session_model_steps(case):
    """(name, drv, edits applied so far) per build step: route 'mk' sees the edited population, every other route reads
    the file / the loader's statements, i.e. the untouched model"""
    out, edits = [], []
    for st in case['steps']:
        if st[0] == 'edit':
            edits.append(st[1])
        elif st[0] == 'build':
            out.append([st[2], st[3], list(edits) if st[1] == 'mk' else []])
    return out


def _run_session(case, stats):
    xtuml, ooaofooa, bridgepoint = _ctx['xtuml'], _ctx['ooaofooa'], _ctx['bridgepoint']
    from bridgepoint import gen_xsd_schema
    d0 = case['diagram']
    fails, answers = [], []

    def fail(sig, what, i):
        fails.append({'sig': sig, 'what': '%s [step %d of %s]' % (what, i, json.dumps(case['steps']))})

    with tempfile.TemporaryDirectory(dir=_ctx['tmp']) as tmpdir:
        loader, path = _loader_for(case, tmpdir)
        m = loader.build_metamodel()
        if case.get('audit'):
            _audit(m, d0)
        cur, last = d0, None
        for i, st in enumerate(case['steps']):
            stats['step_' + st[0] + ('_' + st[1] if st[0] == 'build' else '')] = \
                stats.get('step_' + st[0] + ('_' + st[1] if st[0] == 'build' else ''), 0) + 1
            if st[0] == 'edit':
                E.pop_apply_edit(m, st[1])
                cur = E.py_apply_edit(cur, st[1])
                continue
            if st[0] == 'xsd':
                c_c = m.select_any('C_C', xtuml.where_eq(Name=st[1]))
                gen_xsd_schema.build_schema(m, c_c)
                continue
            if st[0] == 'unmirrored':               # --- owner-C14 round 8: other values in the unmirrored columns
                E.pop_set_unmirrored(m, st[1])
                continue
            if st[0] == 'mutate':
                if last is not None:
                    _mutate_component(last)
                    last = None
                continue
            _, route, name, drv = st
            dd = cur if route == 'mk' else d0
            sel = E.py_select_comp(dd, name)
            want = E.py_extract(dd, sel[1], drv)
            definable = E.py_definable(want)
            before = E.normal_diagram(E.decode(m)) if (route == 'mk' and case.get('audit')) else None
            try:
                if route == 'mk':
                    c_c = m.select_any('C_C', xtuml.where_eq(Name=name)) if name is not None else None
                    last = ooaofooa.mk_component(m, c_c, drv)
                    got = E.canon_metamodel(last)
                elif route == 'build':
                    last = loader.build_component(name, drv)
                    got = E.canon_metamodel(last)
                elif route == 'load':
                    last = bridgepoint.load_component(path, name)
                    got = E.canon_metamodel(last)
                else:
                    out = os.path.join(tmpdir, 'schema%d.sql' % i)
                    got = _run_main(['gen_sql_schema', '-o', out] + (['-c', name] if name is not None else []) +
                                    (['-d'] if drv else []) + [path], out)
                obs = ['ok', got]
            except _NoOutput as e:
                obs = ['error', 'no-output']
                fail('output-missing', 'gen_sql_schema.main returned normally but did not write %r' % (e.args[0],), i)
            except xtuml.MetaModelException:
                obs = ['error', 'MetaModelException']
            except ooaofooa.OoaOfOoaException:
                obs = ['error', 'OoaOfOoaException']
            answers.append(obs)
            if before is not None and E.normal_diagram(E.decode(m)) != before:
                fail('population-modified', 'mk_component changed the ooaofooa population it was given', i)
            if obs[0] == 'ok' and not definable:
                fail('dangling-association-accepted', 'a component was built although a definition is impossible (a class of '
                     'a relationship outside the scope, or two classes with the same key letters): %s' % json.dumps(obs[1]), i)
            elif obs[0] == 'ok' and obs[1] != want:
                fail('session:' + _first_diff(obs[1], want), 'route %s, component %r, derived=%r defines %s, the class model '
                     '(as edited so far) specifies %s' % (route, name, drv, json.dumps(obs[1]), json.dumps(want)), i)
            elif obs[0] == 'error' and definable:
                fail('component-rejected', '%s raised by route %s although every definition is possible' % (obs[1], route), i)
            if fails:
                break
    stats['session_builds'] = len(answers)
    key = hashlib.sha1(json.dumps(case, sort_keys=True, default=str).encode()).hexdigest()
    return {'obs': ['session', answers], 'd_fail': fails[:3], 'key': key, 'stats': stats,
            'nontrivial': len({json.dumps(a) for a in answers}) > 1}


def _strip_keyless(schema):
    """the canonical schema without the associations that have no key pair"""
    groups = []
    for numb, items in schema[1]:
        kept = [it for it in items if it[0][1]]
        if kept:
            groups.append([numb, kept])
    return [schema[0], groups]


def _keyless(schema):
    return [[numb, it] for numb, items in schema[1] for it in items if not it[0][1]]


def _build_rows(case, d, tmpdir, fails=None):
    """mk_component / build_component / gen_sql_schema.main for a rows case -> observation; the SQL schema of a built
    component is loaded back and compared (the last clause of the property, also for keyless associations)"""
    xtuml, ooaofooa = _ctx['xtuml'], _ctx['ooaofooa']
    name, drv = case['comp'], case['drv']
    loader, path = _loader_for(dict(case, diagram=d), tmpdir)
    try:
        if case['entry'] == 'main':
            out = os.path.join(tmpdir, 'schema-%d.sql' % len(os.listdir(tmpdir)))
            got = _run_main(['gen_sql_schema', '-o', out] + (['-c', name] if name is not None else []) +
                            (['-d'] if drv else []) + [path], out)
            comp = loader.build_component(name, drv)
            if fails is not None and E.canon_metamodel(comp) != got:
                fails.append({'sig': 'reload-differs', 'what': 'the SQL schema written by gen_sql_schema loads back to %s, '
                              'build_component defines %s [component=%r labels=%s]'
                              % (json.dumps(got), json.dumps(E.canon_metamodel(comp)), name, case.get('labels'))})
            return ['ok', got, got]
        if case['entry'] == 'mk':
            m = loader.build_metamodel()
            if case.get('audit') and d is case['diagram']:
                if E.normal_diagram(E.decode(m)) != E.normal_diagram(d):
                    raise HarnessError('decode(load(encode(diagram))) differs from the diagram (rows family)')
            c_c = m.select_any('C_C', xtuml.where_eq(Name=name)) if name is not None else None
            comp = ooaofooa.mk_component(m, c_c, drv)
        else:
            comp = loader.build_component(name, drv)
        got = E.canon_metamodel(comp)
        if fails is not None:
            back = _reload(xtuml.serialize_schema(comp) + xtuml.serialize_unique_identifiers(comp))
            if back != got:
                fails.append({'sig': 'reload-differs', 'what': 'serialize_schema + serialize_unique_identifiers load back to '
                              '%s, the component defines %s [component=%r labels=%s]'
                              % (json.dumps(back), json.dumps(got), name, case.get('labels'))})
        return ['ok', got, got]
    except _NoOutput as e:
        if fails is not None:
            fails.append({'sig': 'output-missing', 'what': 'gen_sql_schema.main returned normally but did not write %r'
                          % (e.args[0],)})
        return ['error', 'no-output']
    except AttributeError:
        return ['error', 'AttributeError']
    except TypeError:
        return ['error', 'TypeError']
    except xtuml.MetaModelException:
        return ['error', 'MetaModelException']
    except ooaofooa.OoaOfOoaException:
        return ['error', 'OoaOfOoaException']


def _run_rows(case, stats):
    """relationships outside the formalised shapes.  The property speaks about FORMALISED relationships of well-formed
    populations: D demands exactly their associations with their key pairs - nothing missing, nothing extra under the
    number of a formalised relationship -, that no association appears that belongs to no relationship in scope, and that the
    SQL schema of the built component loads back to the same definitions (keyless associations included).  What is
    defined for a relationship that is NOT formalised (a keyless association; for an unformalised simple relationship its
    direction follows the order of the R_PART rows) is outside the property's clauses: documented in lean/Props/C14.lean,
    compared by K only.  A scope that holds a relationship with missing rows is outside the property (D demands nothing);
    K compares every ending with `buildAll` of the model."""
    d, name, drv = case['diagram'], case['comp'], case['drv']
    comp = _comp_id(d, name)
    fails = []
    scoped = [(x, E.rows_of_kind(x['kind'])) for x in d['rels'] if E.py_in_scope(d, comp, x['parent'])] + \
             [(x, x['rows']) for x in d.get('rows', []) if E.py_in_scope(d, comp, x['parent'])]
    classes = []
    for x, w in scoped:
        cls = E.py_rows_class(d, w)
        nsub = sum(1 for f in ('simp', 'assoc', 'subsup', 'comp') if w[f])
        if nsub > 1 or (w['simp'] and w['form'] and len(w['parts']) > 1):
            cls = 'malformed:' + cls            # more rows than a BridgePoint model can hold
        classes.append(cls)
        stats['rowclass_' + cls] = stats.get('rowclass_' + cls, 0) + 1
    for lb in case.get('labels', []):
        stats['rowkind_' + lb] = stats.get('rowkind_' + lb, 0) + 1
    outside = any(c.startswith('malformed') or c in ('no-subtype', 'incomplete', 'unresolved') for c in classes)
    stats['rows_outside_property'] = int(outside)
    with tempfile.TemporaryDirectory(dir=_ctx['tmp']) as tmpdir:
        obs = _build_rows(case, d, tmpdir, None if outside else fails)
        if not outside:
            if obs[0] != 'ok':
                fails.append({'sig': 'component-rejected', 'what': '%s raised although every relationship in scope has all '
                              'its rows [component=%r labels=%s]' % (obs[1], name, case.get('labels'))})
            else:
                want = _strip_keyless(E.py_extract(d, comp, drv))
                got = _strip_keyless(obs[1])
                if got != want:
                    fails.append({'sig': _first_diff(got, want), 'what': 'the formalised relationships define %s, the class '
                                  'model specifies %s [component=%r]' % (json.dumps(got), json.dumps(want), name)})
                # keyless associations: only under the number of a relationship in scope that is not (fully) formalised
                loose_numbs = {x['numb'] for (x, w), c in zip(scoped, classes) if c in ('unformalised', 'partly-formalised')}
                stray = [it for it in _keyless(obs[1]) if it[0] not in loose_numbs]
                stats['keyless_associations'] = len(_keyless(obs[1]))
                if stray and not fails:
                    fails.append({'sig': 'association-count', 'what': 'associations without key pairs are defined under the '
                                  'number of a formalised relationship (or of no relationship in scope): %s [component=%r '
                                  'labels=%s]' % (json.dumps(stray), name, case.get('labels'))})
    key = hashlib.sha1(json.dumps(case, sort_keys=True, default=str).encode()).hexdigest()
    nontrivial = any(c != 'formalised' for c in classes)
    return {'obs': obs, 'd_fail': fails[:3], 'nontrivial': nontrivial, 'key': key, 'stats': stats}


class _NoOutput(Exception):
    """gen_sql_schema.main returned normally without writing the output file"""


class _AfterEdits(Exception):
    """mk_component raised MetaModelException after the edits; carries the definitions before the edits"""


def _audit(m, d):
    """encoder cross-check (machinery, not a verdict): consistency of the populated classes, decode = diagram"""
    bad = E.check_population(m)
    if bad:
        raise HarnessError('encoder produced an inconsistent ooaofooa population: %s' % '; '.join(bad))
    if E.normal_diagram(E.decode(m)) != E.normal_diagram(d):
        raise HarnessError('decode(load(encode(diagram))) differs from the diagram')


def _split_file(path, tmpdir, seed):
    """the INSERT statements of a model file dealt over two files"""
    import random
    import re
    rnd = random.Random(seed)
    parts = re.split(r'(?=INSERT INTO)', open(path, encoding='utf-8').read())
    a, b = [parts[0]], []
    for st in parts[1:]:
        (a if rnd.random() < 0.5 else b).append(st)
    out = []
    for i, chunk in enumerate((a, b)):
        p = os.path.join(tmpdir, 'part%d.xtuml' % i)
        with open(p, 'w', encoding='utf-8') as f:
            f.write(''.join(chunk))
        out.append(p)
    return out


def _sql_argv(style, out, name, drv, path, tmpdir, seed):
    """command lines of gen_sql_schema: every spelling of the options, several model paths, usage errors"""
    comp = [] if name is None else ['-c', name]
    if style == 'long':
        return ['gen_sql_schema', '--output', out] + ([] if name is None else ['--component', name]) + \
               (['--derived-attributes'] if drv else []) + [path]
    if style == 'eq':
        return ['gen_sql_schema', path, '--output=' + out] + ([] if name is None else ['--component=' + name]) + \
               (['--derived-attributes'] if drv else [])
    if style == 'verbose':
        return ['gen_sql_schema', '-vv', '-o', out] + comp + (['-d'] if drv else []) + ['-v', path]
    if style == 'joined':
        return ['gen_sql_schema', '-o' + out] + ([] if name is None else ['-c' + name]) + (['-d'] if drv else []) + [path]
    if style == 'split':
        return ['gen_sql_schema', '-o', out] + comp + (['-d'] if drv else []) + _split_file(path, tmpdir, seed)
    if style == 'no-output':
        return ['gen_sql_schema'] + comp + [path]
    if style == 'no-model':
        return ['gen_sql_schema', '-o', out] + comp
    return ['gen_sql_schema', '-o', out] + comp + (['-d'] if drv else []) + [path]


def _run_main(argv, out):
    import contextlib
    import io
    import logging
    from bridgepoint import gen_sql_schema
    saved = sys.argv
    sys.argv = argv
    try:
        with contextlib.redirect_stdout(io.StringIO()), contextlib.redirect_stderr(io.StringIO()):
            gen_sql_schema.main()
    finally:
        sys.argv = saved
        logging.disable(logging.CRITICAL)
    xtuml = _ctx['xtuml']
    if not os.path.exists(out):
        raise _NoOutput(out)
    l = xtuml.ModelLoader()
    l.filename_input(out)
    return E.canon_metamodel(l.build_metamodel())


def _first_diff(got, want):
    """a short stable signature of where two canonical schemas differ"""
    gc, wc = {c[0]: c for c in got[0]}, {c[0]: c for c in want[0]}
    if sorted(gc) != sorted(wc):
        return 'class-set'
    for k in sorted(wc):
        if [a[0] for a in gc[k][1]] != [a[0] for a in wc[k][1]]:
            return 'attributes'
        if gc[k][1] != wc[k][1]:
            return 'attribute-type'
        if gc[k][2] != wc[k][2]:
            return 'identifiers'
    gg, wg = {g[0]: g[1] for g in got[1]}, {g[0]: g[1] for g in want[1]}
    if sorted(gg, key=repr) != sorted(wg, key=repr):
        return 'association-set'
    for k in wg:
        if len(gg[k]) != len(wg[k]):
            return 'association-count'
        for a, b in zip(gg[k], wg[k]):
            for side in (0, 1):
                for idx, nm in ((0, 'kind'), (1, 'keys'), (2, 'many'), (3, 'conditional'), (4, 'phrase')):
                    if a[side][idx] != b[side][idx]:
                        return 'association-%s-%s' % ('source' if side == 0 else 'target', nm)
    return 'order'


# --------------------------------------------------------------------------- model side

def model_line(case):
    if case.get('nomodel'):
        return None
    d = _diagram_of(case)
    name = Sym('none') if case['comp'] is None else case['comp']
    if case.get('family') == 'rows':
        return dumps([Sym('c14-rows'), E.diagram_sexp(d), name, bool(case['drv'])])
    if case.get('family') == 'session':
        return dumps([Sym('c14-session'), E.diagram_sexp(d),
                      [[Sym('none') if nm is None else nm, bool(drv), [E.edit_sexp(e) for e in es]]
                       for nm, drv, es in _session_model_steps(case)]])
    if case['entry'] == 'sqltext':
        return dumps([Sym('c14-sql'), E.diagram_sexp(d), name, bool(case['drv'])])
    return dumps([Sym('c14-edit'), E.diagram_sexp(d), name, bool(case['drv']), [E.edit_sexp(e) for e in case['edits']]])


def model_obs(case, ans):
    if case.get('family') == 'session':
        return ['session', [['ok', E.canon_schema_sexp(a[1])] if a[0] == 'ok' else ['error', str(a[1])] for a in ans]]
    if ans[0] == 'error':
        return ['error', str(ans[1])]
    if ans[0] == 'ok-error':
        return ['ok-error', E.canon_schema_sexp(ans[1]), str(ans[2])]
    if case['entry'] == 'sqltext':
        return ['text', ans[1]]
    if case.get('family') == 'rows':
        s0 = E.canon_schema_sexp(ans[1])
        return ['ok', s0, s0]
    s0, s1, s2 = (E.canon_schema_sexp(x) for x in ans[1:4])
    if case.get('twins'):
        # key letters / relationship numbers are not unique over the whole diagram (only within the scope): outside the
        # hypothesis WF of the edit theorems, whose predicted edit addresses classes by key letters - the builds only
        return ['ok', s0, s1]
    if s1 != s2:
        return ['model-inconsistent', s1, s2]
    return ['ok', s0, s1]


def case_from_json(c):
    return c


# --------------------------------------------------------------------------- shrinking

def shrink_candidates(case):
    edits = case['edits']
    for i in range(len(edits)):
        c = dict(case)
        c['edits'] = edits[:i] + edits[i + 1:]
        yield c
    if case['src'] != 'synth':
        return
    if case.get('family') == 'session':
        steps = case['steps']
        for i in range(len(steps)):
            if steps[i][0] != 'edit':
                c = dict(case)
                c['steps'] = steps[:i] + steps[i + 1:]
                yield c
        return
    if case.get('family') == 'rows':
        for i in range(len(case['diagram'].get('rows', []))):
            c = copy.deepcopy(case)
            del c['diagram']['rows'][i]
            yield c
        for i in range(len(case['diagram']['rels'])):
            c = copy.deepcopy(case)
            del c['diagram']['rels'][i]
            yield c
        return
    d = case['diagram']
    used_attrs = set()
    for r in d['rels']:
        k = r['kind']
        for rs in ([k[3]] if k[0] == 'simple' else [k[4], k[5]] if k[0] == 'linked' else
                   [s[1] for s in k[2]] if k[0] == 'subsup' else []):
            for x in rs:
                used_attrs.update(x)
    for c in d['classes']:
        for a in c['attrs']:
            if a['kind'][0] == 'ref':
                used_attrs.add(a['kind'][2])
    edit_ids = {x for e in edits for x in e[1:3] if isinstance(x, int)}
    for i, r in enumerate(d['rels']):
        if r['id'] in edit_ids:
            continue
        c = copy.deepcopy(case)
        del c['diagram']['rels'][i]
        yield c
    used_classes = {x for r in d['rels'] for x in E.rel_classes(r)}
    for i, k in enumerate(d['classes']):
        if k['id'] in used_classes or k['id'] in edit_ids or any(
                a['kind'][0] == 'ref' and a['kind'][1] == k['id'] for c2 in d['classes'] for a in c2['attrs']):
            continue
        c = copy.deepcopy(case)
        del c['diagram']['classes'][i]
        yield c
    for ci, k in enumerate(d['classes']):
        for ai, a in enumerate(k['attrs']):
            if a['id'] in used_attrs or a['id'] in edit_ids or any(
                    e[0] == 'reorder' and e[1] == k['id'] for e in edits):
                continue
            c = copy.deepcopy(case)
            kk = c['diagram']['classes'][ci]
            del kk['attrs'][ai]
            for i in kk['idents']:
                i['attrs'] = [x for x in i['attrs'] if x != a['id']]
            yield c
    for i, t in enumerate(d['dts']):
        if t.get('predef'):
            continue
        if any(a['kind'][0] != 'ref' and a['kind'][1] == t['id'] for k in d['classes'] for a in k['attrs']) or any(
                u['kind'][0] == 'user' and u['kind'][1] == t['id'] for u in d['dts']) or t['id'] in {
                    e[3] for e in edits if e[0] == 'retype'}:
            continue
        c = copy.deepcopy(case)
        del c['diagram']['dts'][i]
        yield c
