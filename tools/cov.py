"""tools/cov.py Cxx [ncases]  — which functions of /repo does a property's QUICK family execute (implementation side only)?

Audit aid (robustness pattern 9: "an anchor function that no case reaches"): generates the quick cases of prop_Cxx,
runs `run_impl` on a random sample of them under sys.setprofile and lists, per source file of /repo, the functions that were
never entered.  Run with /venv/bin/python.  Not part of any check."""
import sys, os, importlib, itertools, tempfile, pathlib
sys.path.insert(0, os.path.join(os.path.dirname(os.path.dirname(os.path.abspath(__file__))), 'harness')); sys.path.insert(0, '/repo')
import runner, common
prop = sys.argv[1]; n = int(sys.argv[2]) if len(sys.argv) > 2 else 400
mod = importlib.import_module('prop_' + prop)
ctx = runner.Ctx(prop, 'quick', 0)
class WS:
    repo = pathlib.Path('/repo')
    def tmp(self, name):
        d = pathlib.Path(tempfile.mkdtemp(prefix='cov-' + name)); return d
ctx.ws = WS()
called = set()
import ast
import glob
files = sorted(f[6:] for f in glob.glob('/repo/xtuml/*.py') + glob.glob('/repo/bridgepoint/*.py') if 'tab.py' not in f and '__init__' not in f)
def tracer(frame, event, arg):
    co = frame.f_code
    fn = co.co_filename
    if fn.startswith('/repo/'):
        called.add((fn[6:], co.co_firstlineno))
    return None
mod.setup(ctx)
cases = list(itertools.islice(mod.generate(ctx), 0, None))
import random
random.Random(1).shuffle(cases)
sys.setprofile(tracer)
for c in cases[:n]:
    try: mod.run_impl(c)
    except Exception as e: print('ERR', type(e).__name__, e)
sys.setprofile(None)
for f in files:
    try: tree = ast.parse(open('/repo/' + f).read())
    except Exception: continue
    miss = []
    def walk(node, prefix):
        for ch in ast.iter_child_nodes(node):
            if isinstance(ch, ast.ClassDef): walk(ch, prefix + ch.name + '.')
            elif isinstance(ch, ast.FunctionDef):
                ln = ch.decorator_list[0].lineno if ch.decorator_list else ch.lineno
                if (f, ln) not in called and (f, ch.lineno) not in called: miss.append(prefix + ch.name)
                walk(ch, prefix + ch.name + '.')
    walk(tree, '')
    print(f, 'NOT CALLED:', ' '.join(miss))
