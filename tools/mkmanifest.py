#!/usr/bin/env python3
"""Regenerates MANIFEST.json from tools/props_meta.json (per-property level text, notes) so that the
manifest stays valid and in step with the checks that exist (harness/prop_<id>.py + lean/Props/<id>.lean)."""
import json
import os

HERE = os.path.dirname(os.path.abspath(__file__))
VERIF = os.path.dirname(HERE)
meta = {}
for fn in sorted(os.listdir(os.path.join(HERE, 'meta'))):
    if fn.endswith('.json'):
        meta[fn[:-5]] = json.load(open(os.path.join(HERE, 'meta', fn)))
props = [json.loads(l) for l in open(os.path.join(VERIF, 'properties.jsonl'))]

integrated = set(open(os.path.join(HERE, 'integrated.txt')).read().split())
checks, na = [], []
for p in props:
    pid = p['id']
    m = meta.get(pid, {})
    have = os.path.exists(os.path.join(VERIF, 'harness', 'prop_%s.py' % pid)) and \
        os.path.exists(os.path.join(VERIF, 'lean', 'Props', '%s.lean' % pid)) and m.get('claimed', False) and pid in integrated
    if not have:
        na.append({'property_id': pid, 'reason': m.get('na_reason', 'check under construction in this round: Lean model, '
                                                       'theorems and correspondence harness not yet committed')})
        continue
    checks.append({
        'property_id': pid,
        'quick_cmd': './check %s --tier quick' % pid,
        'thorough_cmd': './check %s --tier thorough' % pid,
        'evidence_file': 'evidence/%s.json' % pid,
        'replay_cmd_template': './check %s --replay {path}' % pid,
        'engine': 'lean4-proof+correspondence',
        'level_claimed': {'category': 'proof', 'text': m['level_text'], 'design_ref': m.get('design_ref', 'DESIGN.md section 5, ' + pid)},
        'level_note': m['level_note'],
        'technique': m.get('technique', 'Lean 4 theorems over an executable model + differential correspondence with the implementation'),
    })

manifest = {
    'version': 1,
    'setup_cmd': 'cd lean && lake build',
    'hooks': {
        'guard': 'PYXTUML_VERIF',
        'enable': 'no source hooks are needed: every observable is reachable from Python (checks import the code from a scratch copy of the working tree)',
        'baseline_off_cmd': 'cd /repo && /venv/bin/python -m pytest -q -p no:cacheprovider --timeout=900',
        'source_commits': [],
        'add_only': True,
    },
    'engines': [{
        'name': 'lean4-proof+correspondence',
        'path': 'lean/ (models, proofs, driver), translator/ (source tables -> lean/Gen), harness/ (differential correspondence, failing-input search)',
        'serves_properties': [c['property_id'] for c in checks],
        'kind_free_text': 'machine-checked proof in Lean 4 about executable models; models tied to /repo on every run by a table translator and a differential correspondence check',
    }],
    'checks': checks,
    'notes': 'See DESIGN.md. ./check <id> exits 0/1/2 (2 = harness failure, never a verdict). KNOWN_FINDINGS.txt lists open/fixed findings.',
    'not_applicable': na,
}
json.dump(manifest, open(os.path.join(VERIF, 'MANIFEST.json'), 'w'), indent=1)
print('claimed:', [c['property_id'] for c in checks])
print('not claimed:', [n['property_id'] for n in na])
