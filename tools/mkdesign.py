#!/usr/bin/env python3
"""Assembles DESIGN.md from docs/DESIGN.template.md, the per-property claim texts (tools/meta/*.json), the
theorem lists of lean/Props/*.lean, KNOWN_FINDINGS.txt, seeded/*/meta.json and the hand-written parts
docs/parts/validation.md and docs/parts/diffs.md."""
import json
import os
import re
import sys

HERE = os.path.dirname(os.path.abspath(__file__))
VERIF = os.path.dirname(HERE)
sys.path.insert(0, os.path.join(VERIF, 'harness'))
import common  # noqa: E402

props = [json.loads(l) for l in open(os.path.join(VERIF, 'properties.jsonl'))]
integrated = set(open(os.path.join(HERE, 'integrated.txt')).read().split())


def per_property():
    out = []
    for p in props:
        pid = p['id']
        mp = os.path.join(HERE, 'meta', pid + '.json')
        m = json.load(open(mp)) if os.path.exists(mp) else {}
        out.append('### %s — %s\n' % (pid, p['title']))
        if not (m.get('claimed') and pid in integrated):
            out.append('*Not claimed (listed under `not_applicable` in MANIFEST.json):* %s\n' % m.get(
                'na_reason', 'the check was not completed in this round.'))
            continue
        props_file = os.path.join(VERIF, 'lean', 'Props', pid + '.lean')
        names = [n.split('.')[-1] for n in common.theorems_in(props_file)]
        model = m.get('model_files', '')
        out.append('*Proved (theorems of `lean/Props/%s.lean`, %d):* %s.\n' % (pid, len(names), ', '.join('`%s`' % n for n in names)))
        kinds = m.get('theorem_kinds')
        if kinds:
            # the owner's classification: which theorems carry content and which restate a definition, are a
            # one-line corollary, or decide a fact about a generated/literal table
            label = {'content': 'content-bearing (induction / invariant / refinement / round trip / tie to generated source tables)',
                     'spec_equation': 'spec equations (restate one arm of a model definition; no independent content)',
                     'corollary': 'one-line corollaries of another listed theorem',
                     'table_check': 'facts decided over a generated or literal table'}
            seen = set()
            parts = []
            for k in ('content', 'spec_equation', 'corollary', 'table_check'):
                ns = [n for n in kinds.get(k, []) if n in names]
                seen.update(ns)
                if ns:
                    parts.append('%d %s: %s' % (len(ns), label[k], ', '.join('`%s`' % n for n in ns)))
            rest = [n for n in names if n not in seen]
            if rest:
                parts.append('%d not classified: %s' % (len(rest), ', '.join('`%s`' % n for n in rest)))
            out.append('*Of these:* ' + '; '.join(parts) + '.\n')
        out.append('*Claim.* ' + m['level_text'] + '\n')
        out.append('*Trusted / validated only.* ' + m['level_note'] + '\n')
        if model:
            out.append('*Model files.* ' + model + '\n')
    return '\n'.join(out)


def findings():
    rows_fixed, rows_open = [], []
    for line in open(os.path.join(VERIF, 'KNOWN_FINDINGS.txt')):
        line = line.strip()
        m = re.match(r'fixed:\s+property=(\S+)\s+(.*)$', line)
        if m:
            rows_fixed.append('| %s | %s |' % (m.group(1), m.group(2).replace('|', '\\|')))
        m = re.match(r'open:\s+property=(\S+)\s+sig=(\S+)\s+(.*)$', line)
        if m:
            rows_open.append('| %s | `%s` | %s |' % (m.group(1), m.group(2), m.group(3).replace('|', '\\|')))
    s = '**Repaired (%d `fix:` commits in /repo):**\n\n| property | commit and what failed |\n|---|---|\n' % len(rows_fixed)
    s += '\n'.join(rows_fixed)
    s += '\n\n**Open findings (%d), printed as `KNOWN-FINDING` and not counted:**\n\n| property | signature | what fails, why not repaired |\n|---|---|---|\n' % len(rows_open)
    s += '\n'.join(rows_open)
    return s


def seeds():
    d = os.path.join(VERIF, 'seeded')
    rows = []
    for name in sorted(os.listdir(d)) if os.path.isdir(d) else []:
        mp = os.path.join(d, name, 'meta.json')
        if not os.path.exists(mp):
            continue
        m = json.load(open(mp))
        c = m.get('confirmed', {})
        caught = []
        for k, v in sorted(c.get('checks', {}).items()):
            line = ' '.join(v.get('lines', []))
            kind = 'no-failing-input-found' if 'no-failing-input-found' in line else ('failing input' if v.get('exit') == 1 else 'MISSED')
            caught.append('%s: %s' % (k, kind))
        note = m.get('strengthened', '')
        rows.append('| %s | %s | %s | %s%s |' % (name, m.get('summary', '').replace('|', '\\|')[:260],
                                                 m.get('needs_to_manifest', '').replace('|', '\\|')[:200],
                                                 '; '.join(caught), (' — ' + note) if note else ''))
    return ('| seed | change | needs in order to manifest | result of the property\'s check |\n|---|---|---|---|\n' + '\n'.join(rows))


def _lean_imports(root):
    import re
    seen, todo = set(), [root]
    while todo:
        mod = todo.pop()
        if mod in seen:
            continue
        f = os.path.join(VERIF, 'lean', mod.replace('.', '/') + '.lean')
        if not os.path.exists(f):
            continue
        seen.add(mod)
        text = re.sub(r'/-.*?-/', '', open(f).read(), flags=re.S)
        for m in re.finditer(r'^\s*import\s+(\S+)', text, re.M):
            todo.append(m.group(1))
    return seen


def translators():
    import ast
    import glob
    users = {}
    for n in range(1, 21):
        pid = 'C%02d' % n
        for mod in _lean_imports('Props.' + pid) | _lean_imports('Driver.' + pid):
            if mod.startswith('Gen.'):
                users.setdefault(mod[4:] + '.lean', set()).add(pid)
    rows = []
    for f in sorted(glob.glob(os.path.join(VERIF, 'translator', 'gen_*.py'))):
        t = ast.parse(open(f).read())
        doc = (ast.get_docstring(t) or '').strip()
        first = doc.split('\n\n')[0].replace('\n', ' ')
        outs = []
        for n in t.body:
            if isinstance(n, ast.Assign) and any(getattr(x, 'id', None) == 'OUTPUTS' for x in n.targets):
                outs = [e.value for e in n.value.elts]
        used = sorted(set(p for o in outs for p in users.get(o, ())))
        rows.append('| `%s` | %s | %s | %s |' % (os.path.basename(f), ', '.join('`Gen/%s`' % o for o in outs), ' '.join(used) or '—',
                                                first.replace('|', '\\|')[:600]))
    return ('| translator | output | imported by the Lean files of (from the import graph) | reads (first paragraph of its docstring) |\n'
            '|---|---|---|---|\n' + '\n'.join(rows))


def part(name):
    p = os.path.join(VERIF, 'docs', 'parts', name)
    return open(p).read() if os.path.exists(p) else '(to be written)'


t = open(os.path.join(VERIF, 'docs', 'DESIGN.template.md')).read()
t = t.replace('@@PER_PROPERTY@@', per_property()).replace('@@FINDINGS@@', findings()).replace('@@SEEDS@@', seeds())
t = t.replace('@@TRANSLATORS@@', translators())
t = t.replace('@@VALIDATION@@', part('validation.md')).replace('@@DIFFS@@', part('diffs.md'))
open(os.path.join(VERIF, 'DESIGN.md'), 'w').write(t)
print('DESIGN.md written (%d lines)' % t.count('\n'))
