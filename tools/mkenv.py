#!/usr/bin/env python3
"""Rewrites translator/env_snapshot.json from /repo (or $PYXTUML_REPO) for the "environment" lists of tools/meta/*.json.
Run it after a REVIEWED change of /repo (a fix: commit) or after extending a list; never from a check."""
import json
import os
import sys

HERE = os.path.dirname(os.path.abspath(__file__))
VERIF = os.path.dirname(HERE)
sys.path.insert(0, os.path.join(VERIF, 'translator'))
import env_fingerprint as ef  # noqa: E402

repo = os.environ.get('PYXTUML_REPO', '/repo')
snap = {}
for f in sorted(os.listdir(os.path.join(HERE, 'meta'))):
    prop = f[:-5]
    cur = ef.current(repo, VERIF, prop)
    if cur:
        missing = [e for e, v in cur.items() if v == 'MISSING']
        if missing:
            sys.exit('%s: not found in the source: %s' % (prop, missing))
        snap[prop] = cur
json.dump(snap, open(os.path.join(VERIF, 'translator', 'env_snapshot.json'), 'w'), indent=1, sort_keys=True)
print('env_snapshot.json: ' + ', '.join('%s %d' % (p, len(v)) for p, v in sorted(snap.items())))
