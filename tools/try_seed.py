#!/usr/bin/env python3
"""Confirm a seeded regression and run the property's check against it.

  tools/try_seed.py <seed-dir> [--thorough] [--keep-as <name>]

<seed-dir> holds patch.diff, demo.py, meta.json (written by an independent sub-agent that saw only the
property text).  Steps, all on scratch copies of /repo under /var/tmp (never /repo itself, which other
processes are using):
  1. clean copy: demo must exit 0;
  2. patched copy: patch applies, the repository's test suite still passes (244), demo exits 1;
  3. ./check <property> (quick, then thorough if quick misses) with PYXTUML_REPO=<patched copy>.
With --keep-as the seed is stored as /verif/seeded/<name>/ with the results recorded in meta.json.
"""
import json
import os
import shutil
import subprocess
import sys
import tempfile

VERIF = os.path.dirname(os.path.dirname(os.path.abspath(__file__)))
HELPER = '''
import sys, runpy
sys.meta_path[:] = [f for f in sys.meta_path if '__editable__' not in (str(getattr(f, '__module__', '')) + str(getattr(f, '__name__', '')))]
sys.path.insert(0, sys.argv[2])
sys.argv = [sys.argv[1], sys.argv[2]]
runpy.run_path(sys.argv[0], run_name='__main__')
'''
PYTEST = '''
import sys
sys.meta_path[:] = [f for f in sys.meta_path if '__editable__' not in (str(getattr(f, '__module__', '')) + str(getattr(f, '__name__', '')))]
sys.path.insert(0, '.')
import pytest
sys.exit(pytest.main(['-q', '-p', 'no:cacheprovider', '--timeout=900']))
'''


def copy_repo(dst):
    shutil.copytree('/repo', dst, ignore=shutil.ignore_patterns('__pycache__', '*.pyc', '__*tab.py', '.pytest_cache'), symlinks=True)


def run(cmd, cwd=None, env=None, timeout=3600):
    p = subprocess.run(cmd, cwd=cwd, env=env, stdout=subprocess.PIPE, stderr=subprocess.STDOUT, text=True, timeout=timeout)
    return p.returncode, p.stdout


def main():
    args = sys.argv[1:]
    seed = os.path.abspath(args[0])
    thorough = '--thorough' in args
    keep = args[args.index('--keep-as') + 1] if '--keep-as' in args else None
    meta = json.load(open(os.path.join(seed, 'meta.json')))
    prop = meta['property']
    work = tempfile.mkdtemp(prefix='seedtry-', dir='/var/tmp')
    res = {'property': prop}
    try:
        clean, patched = os.path.join(work, 'clean'), os.path.join(work, 'patched')
        copy_repo(clean)
        copy_repo(patched)
        rc, out = run(['git', 'apply', '--whitespace=nowarn', os.path.join(seed, 'patch.diff')], cwd=patched)
        res['patch_applies'] = (rc == 0)
        if rc != 0:
            print('PATCH DOES NOT APPLY:\n' + out)
            return 2
        demo = os.path.join(seed, 'demo.py')
        prev = meta.get('confirmed') or {}
        fast = os.environ.get('TRY_SEED_FAST') == '1' and prev.get('valid_seed')
        if fast:
            # the seed was validated when it was stored (demo on clean / patched copy, suite on the patched copy): only the
            # property's check is re-run against the current machinery
            for k in ('demo_clean_exit', 'demo_patched_exit', 'demo_patched_output_tail', 'suite_with_patch', 'valid_seed'):
                res[k] = prev.get(k)
            rc, rc2 = res['demo_clean_exit'], res['demo_patched_exit']
        else:
            rc, out = run(['/venv/bin/python', '-c', HELPER, demo, clean])
        if not fast:
            res['demo_clean_exit'] = rc
            rc2, out2 = run(['/venv/bin/python', '-c', HELPER, demo, patched])
            res['demo_patched_exit'] = rc2
            res['demo_patched_output_tail'] = out2[-600:]
            rc3, out3 = run(['/venv/bin/python', '-c', PYTEST], cwd=patched)
            res['suite_with_patch'] = out3.strip().split('\n')[-1]
        for f in ('xtuml', 'bridgepoint'):
            for n in os.listdir(os.path.join(patched, f)):
                if n.startswith('__') and n.endswith('tab.py'):
                    os.unlink(os.path.join(patched, f, n))
        print('demo clean=%s patched=%s; suite: %s' % (rc, rc2, res['suite_with_patch']))
        valid = (rc == 0 and rc2 == 1 and '244 passed' in res['suite_with_patch'])
        res['valid_seed'] = valid
        env = dict(os.environ, PYXTUML_REPO=patched)
        props = [prop] + [p for p in meta.get('also_check', [])]
        res['checks'] = {}
        for p in props:
            for tier in (['quick', 'thorough'] if thorough else ['quick']):
                rcq, outq = run([os.path.join(VERIF, 'check'), p, '--tier', tier], cwd=VERIF, env=env, timeout=7200)
                lines = [l for l in outq.split('\n') if l.startswith('VIOLATION') or 'PASS' in l or 'FAIL' in l or 'KNOWN' in l]
                res['checks']['%s/%s' % (p, tier)] = {'exit': rcq, 'lines': lines[-4:]}
                print('%s %s -> exit %d: %s' % (p, tier, rcq, ' | '.join(lines[-2:])))
                if rcq == 1:
                    break
        if keep:
            d = os.path.join(VERIF, 'seeded', keep)
            os.makedirs(d, exist_ok=True)
            for f in ('patch.diff', 'demo.py'):
                if os.path.abspath(os.path.join(seed, f)) != os.path.abspath(os.path.join(d, f)):
                    shutil.copy(os.path.join(seed, f), os.path.join(d, f))
            meta['confirmed'] = res
            meta['what_was_run'] = ('tools/try_seed.py: demo on clean and patched scratch copies of /repo, repository test suite on the '
                                    'patched copy, ./check with PYXTUML_REPO=<patched copy>')
            json.dump(meta, open(os.path.join(d, 'meta.json'), 'w'), indent=1)
        return 0
    finally:
        shutil.rmtree(work, ignore_errors=True)


if __name__ == '__main__':
    sys.exit(main())
