#!/bin/sh
# runs every claimed check once on the current tree (tier and seed from the environment) and prints one line each
cd "$(dirname "$0")/.." || exit 2
for p in $(cat tools/integrated.txt); do
  ./check $p ${1:+--tier $1} 2>&1 | grep -E "^\[C..\] (PASS|FAIL)|VIOLATION|HARNESS" | cut -c1-230
done
