#!/bin/sh
# pytest_here.sh <tree> : run the test suite on exactly that source tree (without /venv's editable install of /repo leaking in)
cd "$1" || exit 2
find . -name '__*tab.py' -delete 2>/dev/null
exec /venv/bin/python -c "
import sys
sys.meta_path[:] = [f for f in sys.meta_path if '__editable__' not in (str(getattr(f, '__module__', '')) + str(getattr(f, '__name__', '')))]
sys.path.insert(0, '.')
import pytest
sys.exit(pytest.main(['-q', '-p', 'no:cacheprovider', '--timeout=900']))
"
