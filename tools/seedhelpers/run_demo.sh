#!/bin/sh
# run_demo.sh <demo.py> <tree> : run the demonstration against exactly that source tree
find "$2" -name '__*tab.py' -delete 2>/dev/null
exec /venv/bin/python -c "
import sys, runpy
sys.meta_path[:] = [f for f in sys.meta_path if '__editable__' not in (str(getattr(f, '__module__', '')) + str(getattr(f, '__name__', '')))]
sys.path.insert(0, sys.argv[2])
sys.argv = [sys.argv[1], sys.argv[2]]
runpy.run_path(sys.argv[0], run_name='__main__')
" "$1" "$2"
