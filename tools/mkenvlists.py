#!/usr/bin/env python3
"""tools/mkenvlists.py [Cxx …]  — extends the "environment" lists of tools/meta/Cxx.json by the functions of /repo that the
property's quick family actually EXECUTES (docs/audit-round4.md, findings 1 and 4).

For each property the quick cases are generated, a random sample of them (at most N, default 2500, and at most T seconds,
default 150) is run through `run_impl` under sys.setprofile, and every code object of xtuml/*.py / bridgepoint/*.py that was
entered is mapped to the module-level function or `Class.method` that contains it (nested functions, lambdas and
comprehensions count for their container; code at class level for the class).  The union with the existing list is written
back (sorted).  A change in any function a case runs through then changes a digest (= broken tie → search for a failing
input), whether or not a shape translator reads that function.  Module-level code is covered by the per-file residue digest
that translator/env_fingerprint.py adds for every file named in a list.  Run with /venv/bin/python, then tools/mkenv.py."""
import ast
import importlib
import json
import os
import pathlib
import random
import sys
import tempfile
import time

HERE = os.path.dirname(os.path.abspath(__file__))
VERIF = os.path.dirname(HERE)
REPO = os.environ.get('PYXTUML_REPO', '/repo')
sys.path.insert(0, os.path.join(VERIF, 'harness'))
sys.path.insert(0, REPO)


def containers(path):
    """[(first line, last line, qualified name)] of module-level functions, classes and methods"""
    tree = ast.parse(open(path).read())
    out = []
    for n in tree.body:
        if isinstance(n, (ast.FunctionDef, ast.AsyncFunctionDef)):
            out.append((min([n.lineno] + [d.lineno for d in n.decorator_list]), n.end_lineno, n.name, 1))
        elif isinstance(n, ast.ClassDef):
            out.append((min([n.lineno] + [d.lineno for d in n.decorator_list]), n.end_lineno, n.name, 0))
            for m in n.body:
                if isinstance(m, (ast.FunctionDef, ast.AsyncFunctionDef)):
                    out.append((min([m.lineno] + [d.lineno for d in m.decorator_list]), m.end_lineno, n.name + '.' + m.name, 1))
    return out


def executed(prop, limit, seconds):
    import common
    import runner
    mod = importlib.import_module('prop_' + prop)
    ctx = runner.Ctx(prop, 'quick', 0)
    ws = common.Workspace()
    try:
        ctx.ws = ws
        ctx.lean = common.LeanSide(ws, prop, lambda *a: None).prepare(thorough=False)
        ws.activate()
        runner._MOD = mod
        runner._REPO_COPY = os.path.realpath(str(ws.repo))
        if hasattr(mod, 'setup'):
            mod.setup(ctx)
        cases = list(mod.generate(ctx))
        random.Random(1).shuffle(cases)
        seen = set()
        prefix = os.path.realpath(str(ws.repo)) + os.sep

        def prof(frame, event, arg):
            if event == 'call':
                co = frame.f_code
                if co.co_filename.startswith(prefix):
                    seen.add((co.co_filename[len(prefix):], co.co_firstlineno))
        t0 = time.time()
        n = 0
        sys.setprofile(prof)
        try:
            for c in cases[:limit]:
                try:
                    mod.run_impl(c)
                except BaseException:
                    pass
                n += 1
                if time.time() - t0 > seconds:
                    break
        finally:
            sys.setprofile(None)
        return seen, n, len(cases)
    finally:
        ws.cleanup()


def main():
    props = [a for a in sys.argv[1:] if a.startswith('C')] or sorted(f[:-5] for f in os.listdir(os.path.join(HERE, 'meta')))
    limit = int(os.environ.get('ENVLIST_CASES', '2500'))
    seconds = int(os.environ.get('ENVLIST_SECONDS', '150'))
    for prop in props:
        seen, n, total = executed(prop, limit, seconds)
        names = set()
        cache = {}
        for (f, line) in seen:
            if not (f.startswith('xtuml/') or f.startswith('bridgepoint/')) or 'tab.py' in f:
                continue
            if f not in cache:
                cache[f] = containers(os.path.join(REPO, f))
            best = None
            for (a, b, q, depth) in cache[f]:
                if a <= line <= b and (best is None or depth >= best[1]):
                    best = (q, depth)
            if best is not None:
                names.add('%s:%s' % (f, best[0]))
        p = os.path.join(HERE, 'meta', prop + '.json')
        d = json.load(open(p))
        old = set(d.get('environment', []))
        d['environment'] = sorted(old | names)
        json.dump(d, open(p, 'w'), indent=1, ensure_ascii=False)
        print('%s: ran %d of %d cases; executed containers %d; list %d -> %d' % (prop, n, total, len(names), len(old), len(d['environment'])))


if __name__ == '__main__':
    main()
