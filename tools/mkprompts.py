#!/usr/bin/env python3
"""tools/mkprompts.py <round-no> <suffix1> <suffix2> [out-dir]  — prompts for a round of seeded-regression authors.

Each author (a fresh sub-agent) gets ONLY the property text, the summaries of earlier seeds for that property (so that the
new ones differ) and the rules for its own scratch worktrees; nothing from /verif.  Prompts go to <out-dir>/prompt<round>-Cxx.txt
(default /tmp/seed-out)."""
import glob
import json
import os
import sys

HERE = os.path.dirname(os.path.dirname(os.path.abspath(__file__)))


def main():
    rnd, s1, s2 = sys.argv[1:4]
    out = sys.argv[4] if len(sys.argv) > 4 else '/tmp/seed-out'
    for line in open(os.path.join(HERE, 'properties.jsonl')):
        p = json.loads(line)
        pid = p['id']
        earlier = {}
        for d in sorted(glob.glob(os.path.join(HERE, 'seeded', pid + '-*')) + glob.glob(os.path.join(out, pid + '-*'))):
            try:
                m = json.load(open(os.path.join(d, 'meta.json')))
            except Exception:
                continue
            earlier.setdefault(os.path.basename(d), m.get('summary', ''))
        mech = '; '.join('%s (%s)' % (m['name'], m['where']) for m in p['anchors'].get('mechanism', []))
        text = TEMPLATE % dict(pid=pid, title=p['title'], statement=p['statement'], quant=p['quantifier']['text'],
                               files=', '.join(p['anchors']['files']), mech=mech, s1=s1, s2=s2, out=out,
                               earlier='\n'.join('- ' + v for k, v in sorted(earlier.items()) if v))
        open(os.path.join(out, 'prompt%s-%s.txt' % (rnd, pid)), 'w').write(text)
    print('prompts written to', out)


TEMPLATE = '''You are testing how robust a software project's verification is. The project is the Python library pyxtuml (lwriemen/pyxtuml): it parses BridgePoint xtUML models and the OAL action language, builds metamodel instances, interprets OAL, and persists/generates models. Its git repository is at /repo (do NOT edit anything under /repo itself and do not look at or use anything under /verif).

Your task: produce TWO different, realistic code changes (regressions) to pyxtuml, each of which BREAKS the following semantic property while the package still imports and its existing test suite still passes:

PROPERTY %(pid)s — %(title)s
%(statement)s
(Quantified over: %(quant)s)
(Code that is meant to make it hold: %(files)s — %(mech)s)

Other people already produced the following changes for this property; yours must be DIFFERENT from these in code site and mechanism (do not reuse their ideas). The project's checks already watch for: caches and memoisation that go stale, state left behind by a rejected operation, aliasing of returned/argument collections, alternate construction routes (API vs loader vs OAL), letter case of names, boundary values (0, 1, 255/256, very long chains), two-of-a-kind objects sharing state, unusual characters (backslashes, lone surrogates, line endings). Look for something ELSE: e.g. an interaction between two features, an ordering dependence, an error path that half-completes, a type confusion (bool/int, str/bytes, None/''), re-entrancy, identity vs equality, a sequence needing three or more specific steps, or a platform/default-argument assumption.
%(earlier)s

Requirements for each change:
* Work ONLY in your own scratch git worktrees: `git -C /repo worktree add --detach /tmp/seed-%(pid)s-%(s1)s` (and `/tmp/seed-%(pid)s-%(s2)s` for the second change). Edit the library source there (not the tests).
* The change must look like a plausible refactoring slip, optimisation, or well-meant "fix" a maintainer could commit — not sabotage that ordinary use would expose at once. Prefer changes that need something SPECIFIC to manifest. The two changes must use different mechanisms / code sites. The change must break the PROPERTY AS STATED (read it carefully; behaviour the statement does not promise does not count).
* The existing suite must still pass with the change: run `/tmp/seed-out/pytest_here.sh <worktree>` and confirm `244 passed` (this helper runs pytest on exactly that tree; use it instead of calling pytest yourself: /venv contains an editable install of /repo that would otherwise leak stale generated parser tables into your tree).
* Write a demonstration: a small standalone Python program `demo.py` that takes the path of a pyxtuml source tree as its first argument (it must do `sys.path.insert(0, sys.argv[1])` BEFORE importing xtuml/bridgepoint), exercises the property, prints what it observed, and exits 0 when the property holds and 1 when it is violated. Run it ONLY through `/tmp/seed-out/run_demo.sh demo.py <tree>` (same reason as above): it must exit 1 on your changed worktree and 0 on an UNCHANGED worktree (make one: `git -C /repo worktree add --detach /tmp/seed-%(pid)s-%(s1)sclean`).
* Save for each change, in %(out)s/%(pid)s-%(s1)s/ (resp. %(out)s/%(pid)s-%(s2)s/): `patch.diff` (output of `git -C <worktree> diff`), `demo.py`, and `meta.json` with keys: property ("%(pid)s"), summary (one sentence: what the change does), needs_to_manifest (what specific input/sequence/state is needed), suite_result (the pytest summary line you observed with the change), demo_changed_exit, demo_clean_exit.
* When done remove ALL your worktrees: `git -C /repo worktree remove --force /tmp/seed-%(pid)s-%(s1)s` etc. (also the clean one) and `git -C /repo worktree prune`.

Your final message: for each change, two or three sentences describing it and confirming the exit codes and the test-suite result.
'''

if __name__ == '__main__':
    main()
