#!/bin/sh
# Re-runs the property check of EVERY stored seeded regression against the current machinery (fast mode: the seed itself was
# validated when stored) and rewrites seeded/<id>/meta.json; a seed whose patch no longer applies to /repo HEAD (because a later
# fix: commit touched the same lines) keeps its stored result and is listed.  usage: tools/reseed_all.sh [jobs]
cd "$(dirname "$0")/.." || exit 2
J=${1:-4}
ls seeded | xargs -P "$J" -I{} sh -c 'TRY_SEED_FAST=1 python3 tools/try_seed.py seeded/{} --keep-as {} > /var/tmp/reseed-{}.log 2>&1; echo "{} $(tail -1 /var/tmp/reseed-{}.log | cut -c1-150)"'
