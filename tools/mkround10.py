#!/usr/bin/env python3
"""tools/mkround10.py - writes docs/round10.md: one row per seed of round 10 (suffixes s / t) with the author's summary, the
result of the FIRST run of the property's quick check (docs/round10-firstrun.json, recorded before any strengthening) and the
result stored by the latest tools/try_seed.py run (seeded/<id>/meta.json)."""
import json
import os
import sys

HERE = os.path.dirname(os.path.dirname(os.path.abspath(__file__)))
sys.path.insert(0, os.path.join(HERE, 'tools'))
from mkround8 import result_of  # noqa: E402

HEAD = '''# Round 10 of seeded regressions (suffixes s / t) — first-run results and what followed

A full round (all twenty properties, two seeds each), run against the checks as they stood after round 9 (commit 87e21e5).
Same procedure as rounds 8 and 9 (`tools/mkprompts.py 10 s t`): every author is a fresh sub-agent that saw only the text of
its property, the one-sentence summaries of the earlier seeds of that property (so that the new ones differ in code site and
mechanism) and the two wrapper scripts of `tools/seedhelpers`; nothing from /verif. Authors were again told what the checks
already watch for and asked for something else (interaction of two features, ordering dependence, half-completed error path,
type confusion, re-entrancy, identity vs equality, three-step sequences, platform / default-argument assumptions).

All 40 seeds are valid (demo exits 0 on a clean copy and 1 on the patched copy, the 244 tests pass on the patched copy;
confirmed by `tools/try_seed.py`) and all 40 were DETECTED at the first run: %(n_input)d with a concrete failing input, %(n_tie)d at the tie
level only (`no-failing-input-found`: a digest or translator tie broke and the enlarged search found no input). Those %(n_tie)d
went back to the owner of the property, who was given the seed and the rule "generalise the input dimension, never hard-code
the seed's input, D demands exactly what the text says"; the last column is the result after that.

| seed | change (author's summary) | first run | after strengthening |
|---|---|---|---|
'''


def main():
    first = json.load(open(os.path.join(HERE, 'docs', 'round10-firstrun.json')))
    rows = []
    n_tie = 0
    for sid in sorted(first):
        f = first[sid]
        if f['first_run'].startswith('tie'):
            n_tie += 1
        rows.append('| %s | %s | %s | %s |' % (sid, f['summary'].replace('|', '\\|')[:270], f['first_run'], result_of(sid)))
    text = HEAD % {'n_input': len(first) - n_tie, 'n_tie': n_tie} + '\n'.join(rows) + '\n'
    notes = os.path.join(HERE, 'docs', 'parts', 'round10-notes.md')
    if os.path.exists(notes):
        text += '\n' + open(notes).read()
    open(os.path.join(HERE, 'docs', 'round10.md'), 'w').write(text)
    print('docs/round10.md written: %d seeds, %d tie-only at first run' % (len(first), n_tie))


if __name__ == '__main__':
    main()
