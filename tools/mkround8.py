#!/usr/bin/env python3
"""tools/mkround8.py - fills the last column of docs/round8.md and docs/round9.md (result of the property's check against
each seed of that round as stored in seeded/<id>/meta.json by the latest tools/try_seed.py run); the cell holds the
placeholder @@<id>@@ or an earlier fill."""
import json
import os
import re

HERE = os.path.dirname(os.path.dirname(os.path.abspath(__file__)))


def result_of(sid):
    meta = json.load(open(os.path.join(HERE, 'seeded', sid, 'meta.json')))
    res = []
    for k, v in sorted((meta.get('confirmed') or {}).get('checks', {}).items()):
        ls = ' '.join(v.get('lines', []))
        r = re.search(r'replay=\S*/(fail-[^\s]*?)-seed\d+\.json', ls)
        if 'no-failing-input-found' in ls:
            res.append('%s: tie only' % k)
        elif r:
            res.append('%s: failing input (`%s`)' % (k, r.group(1).replace('fail-', '')))
        else:
            res.append('%s: exit %s' % (k, v.get('exit')))
    return '; '.join(res)


def main():
    for name in ("round8.md", "round9.md"):
        p = os.path.join(HERE, 'docs', name)
        if not os.path.exists(p):
            continue
        out = []
        for line in open(p):
            m = re.match(r'^\| (C\d\d-[opqr]) \|', line)
            if m:
                cells = line.rstrip('\n').split(' | ')
                cells[-1] = result_of(m.group(1)) + ' |'
                line = ' | '.join(cells) + '\n'
            out.append(line)
        open(p, 'w').write(''.join(out))
        print('docs/%s updated' % name)


if __name__ == '__main__':
    main()
