#!/usr/bin/env python3
"""tools/mkround8.py - fills the last column of docs/round8.md (result of the property's check against each round-8 seed
as stored in seeded/<id>/meta.json by the latest tools/try_seed.py run); placeholders are @@<id>@@ or an earlier fill."""
import json, os, re
HERE = os.path.dirname(os.path.dirname(os.path.abspath(__file__)))
p = os.path.join(HERE, 'docs', 'round8.md')
out = []
for line in open(p):
    m = re.match(r'^\| (C\d\d-[op]) \|', line)
    if m:
        sid = m.group(1)
        meta = json.load(open(os.path.join(HERE, 'seeded', sid, 'meta.json')))
        res = []
        for k, v in sorted((meta.get('confirmed') or {}).get('checks', {}).items()):
            ls = ' '.join(v.get('lines', []))
            r = re.search(r'replay=\S*/(fail-[^\s]*?)-seed\d+\.json', ls)
            if 'no-failing-input-found' in ls:
                res.append('%s: tie only' % k)
            elif r:
                res.append('%s: failing input (`%s`)' % (k, r.group(1).replace('fail-', '')))
            else:
                res.append('%s: exit %s' % (k, v.get('exit')))
        cells = line.rstrip('\n').split(' | ')
        cells[-1] = '; '.join(res) + ' |'
        line = ' | '.join(cells) + '\n'
    out.append(line)
open(p, 'w').write(''.join(out))
print('docs/round8.md updated')
