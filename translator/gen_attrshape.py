"""xtuml/meta.py -> lean/Gen/AttrShape.lean:
Reads, with `ast` only, the statement structure of case-insensitive name handling and emits it as a small
first-order IR:

  Class.__getattr__     the loop over the declared attributes, how a declared name is matched (which sides are
                        upper-cased), and on a match: which name is tested in `self.__dict__`, what is returned on
                        either side, and what happens when nothing matches
  Class.__setattr__     the same loop and match; on a match: overwrite in `__dict__` / `object.__setattr__` (where a
                        referential attribute's property refuses the write), under WHICH name; no match: which name
                        is stored
  Class.__delattr__     the loop over the keys of `__dict__`, the match, what is deleted, the exception otherwise
  MetaClass.attribute_type            the match used to find the declared type
  MetaModel.find_metaclass / find_class / define_class
                        under which key (the name as given or upper-cased) the class table is tested, read and
                        written, which exceptions are raised, what kind the new metaclass is created with, and
                        whether a class whose attribute names coincide (apart from letter case) is rejected

Anything outside the expected shape raises (= broken tie).  Props/C10.lean proves that PyxModel/Attr.lean's
getattr / setattr / delattr / attrType / findMetaclass / defineClass equal a generic interpretation of this IR.
"""
import ast
import os
import re

OUTPUTS = ['AttrShape.lean']


def _strip_doc(body):
    body = list(body)
    if body and isinstance(body[0], ast.Expr) and isinstance(getattr(body[0], 'value', None), ast.Constant) \
            and isinstance(body[0].value.value, str):
        body = body[1:]
    return body


def _d(node):
    return re.sub(r', ctx=(Load|Store|Del)\(\)', '', ast.dump(node))


def _dump(nodes):
    return [_d(n) for n in nodes]


def _is(stmts, src):
    return _dump(stmts) == _dump(ast.parse(src).body)


def _same(stmts, src, where):
    if not _is(stmts, src):
        raise ValueError('%s: statements outside the expected shape:\n%s\n-- expected --\n%s'
                         % (where, '\n'.join(ast.unparse(s) for s in stmts), src))


def _same_expr(node, src):
    return _d(node) == _d(ast.parse(src, mode='eval').body)


def _method(tree, cls, name):
    """THE definition of cls.name: python uses the last of several definitions, a decorator replaces the function, a
    class-level assignment to the name rebinds it - all of these are refused rather than read past"""
    classes = [n for n in tree.body if isinstance(n, ast.ClassDef) and n.name == cls]
    if len(classes) != 1:
        raise ValueError('class %s: expected exactly one definition, found %d' % (cls, len(classes)))
    fs = [f for f in classes[0].body if isinstance(f, (ast.FunctionDef, ast.AsyncFunctionDef)) and f.name == name]
    rebinds = [f for f in classes[0].body if isinstance(f, (ast.Assign, ast.AnnAssign, ast.AugAssign))
               and any(getattr(t, 'id', None) == name for t in (getattr(f, 'targets', None) or [f.target]))]
    if len(fs) != 1 or rebinds:
        raise ValueError('%s.%s: expected exactly one definition and no other binding, found %d definitions and %d assignments'
                         % (cls, name, len(fs), len(rebinds)))
    f = fs[0]
    if f.decorator_list or not isinstance(f, ast.FunctionDef):
        raise ValueError('%s.%s: decorated or async definition' % (cls, name))
    if f.args.vararg or f.args.kwarg or f.args.kwonlyargs or f.args.posonlyargs:
        raise ValueError('%s.%s: unexpected parameter kinds' % (cls, name))
    for dflt in f.args.defaults:
        if not (isinstance(dflt, ast.Constant) and dflt.value in ('', None)):
            raise ValueError('%s.%s: unexpected default argument %s' % (cls, name, ast.unparse(dflt)))
    return f


def _params(f):
    return [a.arg for a in f.args.args]


# ---- how two names are compared: (left operand, right operand, operator) -> MatchForm

def _match_form(test, loop_var, given_forms, negated, where):
    """`<loop variable>[.upper()] (!=|==) <the caller's name in one of given_forms>` (either order): which sides are
    upper-cased.  ONE operand must be the loop variable and the OTHER the caller's name: a comparison of the loop variable
    with itself, or of the parameter with itself (the `attr` -> `name` typo), is refused."""
    if not (isinstance(test, ast.Compare) and len(test.ops) == 1 and len(test.comparators) == 1):
        raise ValueError('%s: comparison of unexpected shape: %s' % (where, ast.unparse(test)))
    op = test.ops[0]
    if negated and not isinstance(op, ast.NotEq) or (not negated and not isinstance(op, ast.Eq)):
        raise ValueError('%s: comparison operator of unexpected kind: %s' % (where, ast.unparse(test)))
    loop_forms = {loop_var: 'asGiven', loop_var + '.upper()': 'upper'}
    a, b = ast.unparse(test.left), ast.unparse(test.comparators[0])
    if a in loop_forms and b in given_forms:
        sides = [loop_forms[a], given_forms[b]]
    elif b in loop_forms and a in given_forms:
        sides = [loop_forms[b], given_forms[a]]
    else:
        raise ValueError('%s: the comparison must have the loop variable %r on one side and the caller\'s name (%s) on the '
                         'other: %s' % (where, loop_var, ' / '.join(sorted(given_forms)), ast.unparse(test)))
    if sides == ['upper', 'upper']:
        return '.upperBoth'
    if sides == ['asGiven', 'asGiven']:
        return '.exact'
    raise ValueError('%s: only one side of the comparison is upper-cased: %s' % (where, ast.unparse(test)))


def _attr_loop(f, where):
    """uname = name.upper(); for attr, _ in get_metaclass(self).attributes: if attr.upper() != uname: continue; <then…>; <after>"""
    body = _strip_doc(f.body)
    if len(body) != 3 or not _is(body[:1], 'uname = name.upper()'):
        raise ValueError('%s: expected `uname = name.upper()`, one loop and one fall-through statement' % where)
    loop = body[1]
    if not (isinstance(loop, ast.For) and _same_expr(loop.target, '(attr, _)')
            and _same_expr(loop.iter, 'get_metaclass(self).attributes') and not loop.orelse and len(loop.body) == 2):
        raise ValueError('%s: loop of unexpected shape' % where)
    skip = loop.body[0]
    if not (isinstance(skip, ast.If) and not skip.orelse and _is(skip.body, 'continue')):
        raise ValueError('%s: expected `if <no match>: continue`' % where)
    # `uname = name.upper()` was checked above, so `uname` is the upper-cased parameter
    match = _match_form(skip.test, 'attr', {'uname': 'upper', 'name.upper()': 'upper', 'name': 'asGiven'}, True, where)
    return match, loop.body[1], body[2]


TARGETS = {'attr': '.declared', 'name': '.given'}


def _getattr(tree):
    f = _method(tree, 'Class', '__getattr__')
    if _params(f) != ['self', 'name']:
        raise ValueError('Class.__getattr__: unexpected parameters')
    match, st, after = _attr_loop(f, 'Class.__getattr__')

    def act(stmts):
        for var, tgt in TARGETS.items():
            if _is(stmts, 'return self.__dict__[%s]' % var):
                return '(.dictValue %s)' % tgt
            if _is(stmts, 'return object.__getattribute__(self, %s)' % var):
                return '(.objectGet %s)' % tgt
        raise ValueError('Class.__getattr__: action outside the expected shape: %s' % '; '.join(ast.unparse(s) for s in stmts))
    if not isinstance(st, ast.If):
        # ONE unconditional statement on a match (`return object.__getattribute__(self, attr)`): the same action whether or not
        # the name is in `__dict__` - emitted as a test with two equal arms (the tested name then does not matter)
        uncond = act([st])
        st = None
    else:
        tested = [tgt for var, tgt in TARGETS.items() if _same_expr(st.test, '%s in self.__dict__' % var)]
        if not tested:
            raise ValueError('Class.__getattr__: test outside the expected shape: %s' % ast.unparse(st.test))
    # after the loop only the caller's name is in scope as a MATCH (the loop variable holds the last declared attribute, or is
    # unbound): a fall-through statement that uses it is refused
    if _is([after], 'return object.__getattribute__(self, name)'):
        fall = '.objectGetGiven'
    elif _is([after], 'return self.__dict__[name]'):
        fall = '.dictValueGiven'
    else:
        raise ValueError('Class.__getattr__: fall-through statement outside the expected shape: %s' % ast.unparse(after))
    if st is None:
        return match, '.declared', uncond, uncond, fall
    return match, tested[0], act(st.body), act(st.orelse), fall


def _setattr(tree):
    f = _method(tree, 'Class', '__setattr__')
    if _params(f) != ['self', 'name', 'value']:
        raise ValueError('Class.__setattr__: unexpected parameters')
    match, st, after = _attr_loop(f, 'Class.__setattr__')

    def act(stmts):
        for var, tgt in TARGETS.items():
            if _is(stmts, 'self.__dict__[%s] = value\nreturn' % var) or _is(stmts, 'self.__dict__[%s] = value' % var):
                return '(.dictStore %s)' % tgt
            if _is(stmts, 'return object.__setattr__(self, %s, value)' % var):
                return '(.objectSet %s)' % tgt
        raise ValueError('Class.__setattr__: action outside the expected shape: %s' % '; '.join(ast.unparse(s) for s in stmts))
    uncond = None
    if not isinstance(st, ast.If):
        # ONE unconditional statement on a match, which must leave the loop (`return object.__setattr__(self, attr, value)`): the
        # same action whether or not the name is in `__dict__` - emitted as a test with two equal arms
        if not isinstance(st, ast.Return):
            raise ValueError('Class.__setattr__: a matched attribute falls through to the statement after the loop')
        uncond = act([st])
    else:
        tested = [tgt for var, tgt in TARGETS.items() if _same_expr(st.test, '%s in self.__dict__' % var)]
        if not tested:
            raise ValueError('Class.__setattr__: test outside the expected shape: %s' % ast.unparse(st.test))
        # the matched branch must leave the loop (return) — otherwise the fall-through statement would also run
        if not (_is(st.body[-1:], 'return') and isinstance(st.orelse[-1], ast.Return)):
            raise ValueError('Class.__setattr__: a matched attribute falls through to the statement after the loop')
    if _is([after], 'self.__dict__[name] = value'):
        fall = '.dictStoreGiven'
    elif _is([after], 'return object.__setattr__(self, name, value)') or _is([after], 'object.__setattr__(self, name, value)'):
        fall = '.objectSetGiven'
    else:
        raise ValueError('Class.__setattr__: fall-through statement outside the expected shape: %s' % ast.unparse(after))
    if uncond is not None:
        return match, '.declared', uncond, uncond, fall
    return match, tested[0], act(st.body), act(st.orelse), fall


def _delattr(tree):
    f = _method(tree, 'Class', '__delattr__')
    body = _strip_doc(f.body)
    if _params(f) != ['self', 'name'] or len(body) != 3 or not _is(body[:1], 'uname = name.upper()'):
        raise ValueError('Class.__delattr__: unexpected shape')
    loop = body[1]
    if not (isinstance(loop, ast.For) and _same_expr(loop.target, 'key') and _same_expr(loop.iter, 'self.__dict__')
            and not loop.orelse and len(loop.body) == 1 and isinstance(loop.body[0], ast.If) and not loop.body[0].orelse):
        raise ValueError('Class.__delattr__: loop of unexpected shape')
    test = loop.body[0].test
    if _same_expr(test, 'uname == key.upper()') or _same_expr(test, 'key.upper() == uname'):
        match = '.upperBoth'
    elif _same_expr(test, 'name == key') or _same_expr(test, 'key == name'):
        match = '.exact'
    else:
        raise ValueError('Class.__delattr__: match outside the expected shape: %s' % ast.unparse(test))
    _same(loop.body[0].body, 'del self.__dict__[key]\nreturn', 'Class.__delattr__')
    _same(body[2:], 'raise AttributeError(name)', 'Class.__delattr__')
    return match


def _attribute_type(tree):
    f = _method(tree, 'MetaClass', 'attribute_type')
    body = _strip_doc(f.body)
    if _params(f) != ['self', 'attribute_name'] or len(body) != 2 or not _is(body[:1], 'attribute_name = attribute_name.upper()'):
        raise ValueError('MetaClass.attribute_type: unexpected shape')
    loop = body[1]
    if not (isinstance(loop, ast.For) and _same_expr(loop.target, '(name, ty)') and _same_expr(loop.iter, 'self.attributes')
            and not loop.orelse and len(loop.body) == 1 and isinstance(loop.body[0], ast.If) and not loop.body[0].orelse
            and _is(loop.body[0].body, 'return ty')):
        raise ValueError('MetaClass.attribute_type: loop of unexpected shape')
    # `attribute_name = attribute_name.upper()` was checked above: the parameter is upper-cased from there on
    return _match_form(loop.body[0].test, 'name', {'attribute_name': 'upper', 'attribute_name.upper()': 'upper'}, False,
                       'MetaClass.attribute_type')


KEYS = {'ukind': '.upper', 'kind.upper()': '.upper', 'kind': '.asGiven'}


def _key(node, where):
    src = ast.unparse(node)
    if src not in KEYS:
        raise ValueError('%s: class-table key outside the expected shape: %s' % (where, src))
    return KEYS[src]


def _reserved(tree):
    """`def _is_reserved(name): return len(name) > N and name.startswith(P) and name.endswith(S)` -> (N, P, S)"""
    fs = [n for n in tree.body if isinstance(n, ast.FunctionDef) and n.name == '_is_reserved']
    if len(fs) != 1:
        raise ValueError('_is_reserved: expected exactly one module-level definition, found %d' % len(fs))
    f = fs[0]
    body = _strip_doc(f.body)
    if _params(f) != ['name'] or f.decorator_list or len(body) != 1 or not isinstance(body[0], ast.Return):
        raise ValueError('_is_reserved: unexpected shape')
    e = body[0].value
    ok = isinstance(e, ast.BoolOp) and isinstance(e.op, ast.And) and len(e.values) == 3
    if ok:
        c, p, q = e.values
        ok = (isinstance(c, ast.Compare) and len(c.ops) == 1 and isinstance(c.ops[0], ast.Gt) and _same_expr(c.left, 'len(name)')
              and isinstance(c.comparators[0], ast.Constant) and type(c.comparators[0].value) is int)
        for call, meth in ((p, 'startswith'), (q, 'endswith')):
            ok = ok and (isinstance(call, ast.Call) and _same_expr(call.func, 'name.' + meth) and len(call.args) == 1
                         and not call.keywords and isinstance(call.args[0], ast.Constant) and type(call.args[0].value) is str)
    if not ok:
        raise ValueError('_is_reserved: test of unexpected shape: %s' % ast.unparse(e))
    return c.comparators[0].value, p.args[0].value, q.args[0].value


def _chars(text):
    for ch in text:
        if not (ch.isascii() and (ch.isalnum() or ch == '_')):
            raise ValueError('character %r cannot be rendered as a Lean character literal here' % ch)
    return '[' + ', '.join("'%s'" % ch for ch in text) + ']'


def _class_table(tree):
    f = _method(tree, 'MetaModel', 'find_metaclass')
    body = _strip_doc(f.body)
    if _params(f) != ['self', 'kind'] or len(body) != 2 or not _is(body[:1], 'ukind = kind.upper()'):
        raise ValueError('MetaModel.find_metaclass: unexpected shape')
    st = body[1]
    if not (isinstance(st, ast.If) and isinstance(st.test, ast.Compare) and len(st.test.ops) == 1
            and isinstance(st.test.ops[0], ast.In) and _same_expr(st.test.comparators[0], 'self.metaclasses')
            and len(st.body) == 1 and isinstance(st.body[0], ast.Return) and isinstance(st.body[0].value, ast.Subscript)
            and _same_expr(st.body[0].value.value, 'self.metaclasses')
            and _is(st.orelse, 'raise UnknownClassException(kind)')):
        raise ValueError('MetaModel.find_metaclass: unexpected shape: %s' % ast.unparse(st))
    find_test = _key(st.test.left, 'find_metaclass')
    find_read = _key(st.body[0].value.slice, 'find_metaclass')
    _same(_strip_doc(_method(tree, 'MetaModel', 'find_class').body), 'return self.find_metaclass(kind).clazz',
          'MetaModel.find_class')
    g = _method(tree, 'MetaModel', 'define_class')
    b = _strip_doc(g.body)
    if _params(g) != ['self', 'kind', 'attributes', 'doc'] or len(b) not in (6, 7) or not _is(b[:1], 'ukind = kind.upper()'):
        raise ValueError('MetaModel.define_class: unexpected shape')
    st = b[1]
    if not (isinstance(st, ast.If) and not st.orelse and isinstance(st.test, ast.Compare) and len(st.test.ops) == 1
            and isinstance(st.test.ops[0], ast.In) and _same_expr(st.test.comparators[0], 'self.metaclasses')
            and len(st.body) == 1 and isinstance(st.body[0], ast.Raise)
            and isinstance(st.body[0].exc, ast.Call) and ast.unparse(st.body[0].exc.func) == 'MetaModelException'):
        raise ValueError('MetaModel.define_class: duplicate test of unexpected shape: %s' % ast.unparse(st))
    def_test = _key(st.test.left, 'define_class')
    mk = b[2]
    if not (isinstance(mk, ast.Assign) and _same_expr(mk.targets[0], 'metaclass') and isinstance(mk.value, ast.Call)
            and ast.unparse(mk.value.func) == 'MetaClass' and len(mk.value.args) == 2 and not mk.value.keywords
            and _same_expr(mk.value.args[1], 'self')):
        raise ValueError('MetaModel.define_class: metaclass creation of unexpected shape: %s' % ast.unparse(mk))
    stored_kind = _key(mk.value.args[0], 'define_class')
    reserved = 'none'
    # the attribute loop, with or without the rejection of names that coincide apart from letter case
    if len(b) == 6:
        _same(b[3:4], 'for name, ty in attributes:\n    metaclass.append_attribute(name, ty)', 'MetaModel.define_class')
        collision = 'none'
    else:
        _same(b[3:4], 'unames = set()', 'MetaModel.define_class')
        lp = b[4]
        if not (isinstance(lp, ast.For) and _same_expr(lp.target, '(name, ty)') and _same_expr(lp.iter, 'attributes')
                and not lp.orelse and len(lp.body) in (3, 4)):
            raise ValueError('MetaModel.define_class: attribute loop of unexpected shape: %s' % ast.unparse(lp))

        def raising_if(st):
            return (isinstance(st, ast.If) and not st.orelse and len(st.body) == 1 and isinstance(st.body[0], ast.Raise)
                    and isinstance(st.body[0].exc, ast.Call) and ast.unparse(st.body[0].exc.func) == 'MetaModelException')
        if len(lp.body) == 4:
            # the loop first refuses names python reserves for itself
            if not (raising_if(lp.body[0]) and _same_expr(lp.body[0].test, '_is_reserved(name)')):
                raise ValueError('MetaModel.define_class: reserved-name test of unexpected shape: %s' % ast.unparse(lp.body[0]))
            n, pre, suf = _reserved(tree)
            reserved = '(some { minLen := %d, pre := %s, suf := %s })' % (n, _chars(pre), _chars(suf))
            lp.body = lp.body[1:]
        if not raising_if(lp.body[0]):
            raise ValueError('MetaModel.define_class: attribute loop of unexpected shape: %s' % ast.unparse(lp))
        if _same_expr(lp.body[0].test, 'name.upper() in unames') and _is(lp.body[1:2], 'unames.add(name.upper())'):
            collision = '(some .upperBoth)'
        elif _same_expr(lp.body[0].test, 'name in unames') and _is(lp.body[1:2], 'unames.add(name)'):
            collision = '(some .exact)'
        else:
            raise ValueError('MetaModel.define_class: collision test of unexpected shape: %s' % ast.unparse(lp.body[0].test))
        _same(lp.body[2:], 'metaclass.append_attribute(name, ty)', 'MetaModel.define_class')
        b = b[:3] + b[4:]          # continue as in the shorter shape
    st = b[4]
    if not (isinstance(st, ast.Assign) and isinstance(st.targets[0], ast.Subscript)
            and _same_expr(st.targets[0].value, 'self.metaclasses') and _same_expr(st.value, 'metaclass')):
        raise ValueError('MetaModel.define_class: class-table store of unexpected shape: %s' % ast.unparse(st))
    def_store = _key(st.targets[0].slice, 'define_class')
    _same(b[5:], 'return metaclass', 'MetaModel.define_class')
    return find_test, find_read, def_test, stored_kind, def_store, collision, reserved


HEADER = '''/-
  GENERATED by translator/gen_attrshape.py from xtuml/meta.py (Class.__getattr__ / __setattr__ / __delattr__,
  MetaClass.attribute_type, MetaModel.find_metaclass / find_class / define_class, _is_reserved) — do not edit.
  Props/C10.lean proves that PyxModel/Attr.lean equals the generic interpretation of this IR.
-/
namespace Pyx.Gen.AttrShape

/-- how two names are compared -/
inductive MatchForm where
  | upperBoth           -- a.upper() == b.upper()
  | exact               -- a == b
  deriving DecidableEq, Repr

/-- which spelling a statement uses -/
inductive Target where
  | declared            -- the loop variable: the declared attribute name that matched
  | given               -- the name the caller used
  deriving DecidableEq, Repr

inductive GetAct where
  | dictValue (t : Target)          -- return self.__dict__[t]
  | objectGet (t : Target)          -- return object.__getattribute__(self, t)
  deriving DecidableEq, Repr

inductive SetAct where
  | dictStore (t : Target)          -- self.__dict__[t] = value
  | objectSet (t : Target)          -- object.__setattr__(self, t, value): a property on the class refuses
  deriving DecidableEq, Repr

/-- the statement after the loop (no declared attribute matched): only the caller's name can be used there -/
inductive GetFall where
  | dictValueGiven                  -- return self.__dict__[name]            (KeyError when the key is missing)
  | objectGetGiven                  -- return object.__getattribute__(self, name)
  deriving DecidableEq, Repr

inductive SetFall where
  | dictStoreGiven                  -- self.__dict__[name] = value
  | objectSetGiven                  -- object.__setattr__(self, name, value)
  deriving DecidableEq, Repr

/-- `for attr, _ in attributes: if <no match>: continue; if <tested> in self.__dict__: <inDict> else: <notInDict>`;
    after the loop: <noMatch> -/
structure GetShape where
  matchForm : MatchForm
  tested : Target
  inDict : GetAct
  notInDict : GetAct
  noMatch : GetFall
  deriving Repr

structure SetShape where
  matchForm : MatchForm
  tested : Target
  inDict : SetAct
  notInDict : SetAct
  noMatch : SetFall
  deriving Repr

/-- key of the class table `MetaModel.metaclasses` -/
inductive KeyForm where
  | upper | asGiven
  deriving DecidableEq, Repr

/-- `_is_reserved(name)`: `len(name) > minLen and name.startswith(pre) and name.endswith(suf)` -/
structure ReservedForm where
  minLen : Nat
  pre : List Char
  suf : List Char
  deriving DecidableEq, Repr

'''


def generate(repo_dir):
    tree = ast.parse(open(os.path.join(repo_dir, 'xtuml', 'meta.py'), encoding='utf-8').read())
    g = _getattr(tree)
    s = _setattr(tree)
    dm = _delattr(tree)
    at = _attribute_type(tree)
    ft, fr, dt, sk, ds, col, rsv = _class_table(tree)
    out = [HEADER]
    out.append('def getShape : GetShape :=\n  { matchForm := %s, tested := %s, inDict := %s, notInDict := %s, noMatch := %s }\n' % g)
    out.append('def setShape : SetShape :=\n  { matchForm := %s, tested := %s, inDict := %s, notInDict := %s, noMatch := %s }\n' % s)
    out.append('/-- __delattr__: the first key of `__dict__` that matches is deleted; AttributeError when none does -/')
    out.append('def delMatch : MatchForm := %s\n' % dm)
    out.append('def attributeTypeMatch : MatchForm := %s\n' % at)
    out.append('/-- find_metaclass: key tested / key read; define_class: key tested for the duplicate check, the kind the')
    out.append('    metaclass is created with, key stored -/')
    out.append('def findTestKey : KeyForm := %s\n' % ft)
    out.append('def findReadKey : KeyForm := %s\n' % fr)
    out.append('def defineTestKey : KeyForm := %s\n' % dt)
    out.append('def defineStoredKind : KeyForm := %s\n' % sk)
    out.append('def defineStoreKey : KeyForm := %s\n' % ds)
    out.append('/-- define_class rejects (MetaModelException, nothing is defined) a class with two attribute names that match in')
    out.append('    this way; `none` = no such check -/')
    out.append('def defineAttrCollision : Option MatchForm := %s\n' % col)
    out.append('/-- define_class rejects (MetaModelException, nothing is defined) a class with an attribute name for which')
    out.append('    `_is_reserved` holds: longer than minLen, starting with pre, ending with suf; `none` = no such check -/')
    out.append('def defineReserved : Option ReservedForm := %s\n' % rsv)
    out.append('end Pyx.Gen.AttrShape\n')
    return [('AttrShape.lean', '\n'.join(out))]


if __name__ == '__main__':
    import sys
    for name, text in generate(sys.argv[1] if len(sys.argv) > 1 else '/repo'):
        sys.stdout.write(text)
