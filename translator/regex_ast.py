"""Regex source text -> the AST of lean/PyxModel/Regex.lean, through Python's own regex parser (`re._parser`).

    tree = to_ast(r"[a-z]+(?=::)", re.VERBOSE)        raises Unsupported for constructs outside the Lean AST
    lean_term(tree)                                    the Lean term (Pyx.Regex.Regex), `open Pyx.Regex` assumed

Shared by the lexer translators (OAL: gen_oallex.py; SQL: gen_sqllex.py may use it).  Not a gen_* module, so
translator/extract.py does not run it by itself.

Tree (tuples):  ('eps',) | ('cls', neg, [items]) | ('seq', a, b) | ('alt', a, b) | ('star', greedy, r) | ('group', r)
                | ('look', r) | ('nlook', r);   items: ('ch', c) | ('range', lo, hi) | ('cat', k) | ('ncat', k)
"""
import re

try:
    import re._parser as sre_parse
    import re._constants as sre_c
except ImportError:  # pragma: no cover
    import sre_parse
    import sre_constants as sre_c


class Unsupported(Exception):
    pass


MAX_BOUNDED = 8

_CATS = {sre_c.CATEGORY_DIGIT: ('cat', 'digit'), sre_c.CATEGORY_NOT_DIGIT: ('ncat', 'digit'),
         sre_c.CATEGORY_SPACE: ('cat', 'space'), sre_c.CATEGORY_NOT_SPACE: ('ncat', 'space'),
         sre_c.CATEGORY_WORD: ('cat', 'word'), sre_c.CATEGORY_NOT_WORD: ('ncat', 'word')}


def _seq(parts):
    if not parts:
        return ('eps',)
    out = parts[-1]
    for p in reversed(parts[:-1]):
        out = ('seq', p, out)
    return out


def nullable(t):
    k = t[0]
    if k == 'eps':
        return True
    if k == 'cls':
        return False
    if k == 'seq':
        return nullable(t[1]) and nullable(t[2])
    if k == 'alt':
        return nullable(t[1]) or nullable(t[2])
    if k == 'group':
        return nullable(t[1])
    return True          # star, look, nlook


def _items(av):
    neg = False
    items = []
    for op, a in av:
        if op is sre_c.NEGATE:
            neg = True
        elif op is sre_c.LITERAL:
            items.append(('ch', chr(a)))
        elif op is sre_c.RANGE:
            items.append(('range', chr(a[0]), chr(a[1])))
        elif op is sre_c.CATEGORY:
            if a not in _CATS:
                raise Unsupported('character category %s' % (a,))
            items.append(_CATS[a])
        else:
            raise Unsupported('class item %s' % (op,))
    return neg, items


def _conv(seq):
    parts = []
    for op, av in seq:
        if op is sre_c.LITERAL:
            parts.append(('cls', False, [('ch', chr(av))]))
        elif op is sre_c.NOT_LITERAL:
            parts.append(('cls', True, [('ch', chr(av))]))
        elif op is sre_c.ANY:
            parts.append(('cls', True, [('ch', '\n')]))          # no DOTALL
        elif op is sre_c.IN:
            neg, items = _items(av)
            parts.append(('cls', neg, items))
        elif op is sre_c.BRANCH:
            alts = [_conv(a) for a in av[1]]
            out = alts[-1]
            for a in reversed(alts[:-1]):
                out = ('alt', a, out)
            parts.append(out)
        elif op is sre_c.SUBPATTERN:
            group, add_flags, del_flags, p = av
            if add_flags or del_flags:
                raise Unsupported('inline flags')
            parts.append(('group', _conv(p)))
        elif op in (sre_c.MAX_REPEAT, sre_c.MIN_REPEAT):
            lo, hi, body = av
            greedy = op is sre_c.MAX_REPEAT
            r = _conv(body)
            if nullable(r):
                raise Unsupported('repetition of a pattern that can match the empty string')
            pre = [r] * lo
            if hi == sre_c.MAXREPEAT:
                if lo > MAX_BOUNDED:
                    raise Unsupported('repeat count %d' % lo)
                parts.append(_seq(pre + [('star', greedy, r)]))
            else:
                if hi > MAX_BOUNDED:
                    raise Unsupported('repeat count %d' % hi)
                tail = ('eps',)
                for _ in range(hi - lo):
                    inner = _seq([r, tail]) if tail != ('eps',) else r
                    tail = ('alt', inner, ('eps',)) if greedy else ('alt', ('eps',), inner)
                parts.append(_seq(pre + ([tail] if hi > lo else [])))
        elif op is sre_c.ASSERT or op is sre_c.ASSERT_NOT:
            direction, p = av
            if direction != 1:
                raise Unsupported('look-behind')
            parts.append(('look' if op is sre_c.ASSERT else 'nlook', _conv(p)))
        else:
            raise Unsupported('regex construct %s' % (op,))
    return _seq(parts)


def to_ast(source, flags=re.VERBOSE):
    p = sre_parse.parse(source, flags)
    if p.state.flags & ~(re.VERBOSE | re.UNICODE):
        raise Unsupported('regex flags %s' % p.state.flags)
    return _conv(p)


def _lchar(ch):
    o = ord(ch)
    if ch == "'":
        return "'\\''"
    if ch == '\\':
        return "'\\\\'"
    if ch == '\n':
        return "'\\n'"
    if ch == '\t':
        return "'\\t'"
    if ch == '\r':
        return "'\\r'"
    if 32 <= o < 127:
        return "'%s'" % ch
    return "(Char.ofNat %d)" % o


def lean_term(t):
    k = t[0]
    if k == 'eps':
        return '.eps'
    if k == 'cls':
        items = []
        for it in t[2]:
            if it[0] == 'ch':
                items.append('.ch %s' % _lchar(it[1]))
            elif it[0] == 'range':
                items.append('.range %s %s' % (_lchar(it[1]), _lchar(it[2])))
            else:
                items.append('.%s .%s' % (it[0], it[1]))
        return '(.cls { neg := %s, items := [%s] })' % ('true' if t[1] else 'false', ', '.join(items))
    if k in ('seq', 'alt'):
        return '(.%s %s %s)' % (k, lean_term(t[1]), lean_term(t[2]))
    if k == 'star':
        return '(.star %s %s)' % ('true' if t[1] else 'false', lean_term(t[2]))
    return '(.%s %s)' % (k, lean_term(t[1]))


def py_match_len(source, text, flags=re.VERBOSE):
    """what Python itself says (used by the self-test)"""
    m = re.compile(source, flags).match(text)
    return None if m is None else m.end()
