"""Translator: re-reads the declarative parts of /repo's source (tables, rule orders, operator
dictionaries, schema text) with Python's `ast` and regenerates lean/Gen/*.lean.

`generate(repo_dir, out_dir)` writes one .lean file per table and returns a list of error strings
(the source no longer has the shape the extractor expects => the tie is broken, never ignored).
Each generator lives in gen_*.py next to this file and registers itself in GENERATORS.
"""
import importlib
import os
import sys

HERE = os.path.dirname(os.path.abspath(__file__))
GENERATORS = []


def _load_generators():
    global GENERATORS
    if GENERATORS:
        return
    sys.path.insert(0, HERE)
    for fn in sorted(os.listdir(HERE)):
        if fn.startswith('gen_') and fn.endswith('.py'):
            mod = importlib.import_module(fn[:-3])
            GENERATORS.append(mod)


def generate(repo_dir, out_dir, only=None):
    """`only`: set of Gen file names the caller depends on (None = all).  A generator module declares the
    files it writes in OUTPUTS = [...]; a module without OUTPUTS is always run.  Returns error strings,
    each prefixed with the output files it concerns."""
    _load_generators()
    errors = []
    os.makedirs(out_dir, exist_ok=True)
    for mod in GENERATORS:
        outs = getattr(mod, 'OUTPUTS', None)
        if only is not None and outs is not None and not (set(outs) & set(only)):
            continue
        try:
            for name, text in mod.generate(repo_dir):
                with open(os.path.join(out_dir, name), 'w') as f:
                    f.write(text)
        except Exception as e:
            errors.append('%s (%s): %s: %s' % (mod.__name__, ','.join(outs or ['?']), type(e).__name__, e))
    return errors


if __name__ == '__main__':
    repo = sys.argv[1] if len(sys.argv) > 1 else '/repo'
    out = sys.argv[2] if len(sys.argv) > 2 else os.path.join(HERE, '..', 'lean', 'Gen')
    errs = generate(repo, out)
    for e in errs:
        print('ERROR', e)
    sys.exit(1 if errs else 0)
