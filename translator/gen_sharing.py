"""xtuml/load.py + xtuml/meta.py -> lean/Gen/Sharing.lean:
Read with `ast` only (the repository is never imported).  Four tables:

  phaseOrder         the `self.populate_*` calls of `ModelLoader.populate`, in source order
  buildReturnsFresh  `ModelLoader.build_metamodel` creates a `MetaModel(...)`, populates it and returns it,
                     and stores nothing on `self` (a loader that cached the metamodel would hand the same
                     object to two builds)
  byRef              for every list-valued field of a statement object (`stmt.attributes`, `stmt.source_keys`,
                     `stmt.target_keys`, `stmt.values`, `stmt.names`): the metamodel-side attributes into which the
                     `populate_*` / `define_*` code stores the statement's OWN list object (a small escape analysis:
                     the expression is followed through the calls it is passed to; iteration, zip(), len(), set(),
                     tuple(), dict(), subscripting, star-unpacking copy or only read it; `x.attr = <expr>` and
                     `container.append(<expr>)` keep it)
  mutatorWrites      for every mutation the property lists, the fields of metamodel-side objects its code writes
                     (transitively through the functions of xtuml/meta.py it calls): `X.f.append(..)`, `X.f[..] = ..`,
                     `del X.f[..]`, `X.f |= ..`, `X.f = ..`, `self[..] = ..` / `self[..].add(..)` inside `Link`,
                     `setattr(inst, ..)`, `next(<..>.id_generator)`

The statement objects themselves are tracked: in every `populate_*` phase the loop variable of
`for <v> in self.statements:` (its class is read off the `isinstance` test) may only be used as `<v>.<field>` with a
KNOWN field of that statement class, tested with isinstance(), or passed whole to a function of the project (also
through a local name bound to `self.<method>`), where its parameter is tracked in the same way; renaming it,
storing it, returning it, writing one of its fields or mutating one of its lists raises.  Every list-valued field of
STATEMENT_FIELDS must have at least one recognised use — a field that is never seen is a broken tie, not "not shared".

Any use the analysis does not recognise raises (= broken tie), never guesses.
"""
import ast
import os

OUTPUTS = ['Sharing.lean']

# functions that copy their argument or only read its (immutable) elements; NOT min / max / next / getattr-like
# functions, which hand one of their arguments back
COPIERS = {'zip', 'len', 'set', 'list', 'tuple', 'dict', 'sorted', 'enumerate', 'frozenset', 'range', 'isinstance',
           'str', 'iter', 'reversed', 'any', 'all', 'sum', 'map', 'filter', 'repr', 'bool'}
KEEPERS = {'append', 'add', 'insert', 'appendleft'}            # container.m(obj) keeps obj itself
MUTATING = {'append', 'insert', 'remove', 'add', 'discard', 'pop', 'clear', 'extend', 'update', 'setdefault',
            'popitem', 'sort', 'reverse', 'appendleft', 'popleft', '__iadd__', '__imul__', '__setitem__', '__delitem__',
            '__ior__', '__iand__', '__isub__', '__ixor__'}
# fields of metamodel-side objects that may hold a list object owned by a loader statement (kept by reference, or
# possibly so): inside the listed mutators they may be read, iterated, copied and mutated IN PLACE UNDER THEIR OWN NAME
# (which the write sets record) - binding them to another name, putting them into a tuple / list, or handing them to a
# function that is not a known reader hides a write from the analysis and raises
TRACKED_FIELDS = {'source_keys', 'target_keys', 'attributes'}
RECEIVER_TYPES = {'metaclass': 'MetaClass', 'source_class': 'MetaClass', 'target_class': 'MetaClass',
                  'source_metaclass': 'MetaClass', 'target_metaclass': 'MetaClass', 'inst': 'Class',
                  'instance': 'Class', 'metamodel': 'MetaModel', 'ass': 'Association'}
STATEMENT_FIELDS = [('CreateClassStmt', 'attributes'), ('CreateAssociationStmt', 'source_keys'),
                    ('CreateAssociationStmt', 'target_keys'), ('CreateUniqueStmt', 'attributes'),
                    ('CreateInstanceStmt', 'values'), ('CreateInstanceStmt', 'names')]
# every field of the statement classes: the list-valued ones above, and the immutable ones (str / bool / int / None)
SCALAR_FIELDS = {'CreateClassStmt': {'kind'}, 'CreateUniqueStmt': {'kind', 'name'}, 'CreateInstanceStmt': {'kind'},
                 'CreateAssociationStmt': {'rel_id', 'source_kind', 'target_kind', 'source_cardinality',
                                           'target_cardinality', 'source_phrase', 'target_phrase'}}
BASE_FIELDS = {'offset', 'lineno', 'filename'}
INSPECTORS = {'isinstance', 'type', 'id'}
MUTATORS = [('append_attribute', 'MetaClass.append_attribute'), ('insert_attribute', 'MetaClass.insert_attribute'),
            ('delete_attribute', 'MetaClass.delete_attribute'),
            ('define_unique_identifier', 'MetaModel.define_unique_identifier'), ('new', 'MetaModel.new'),
            ('delete', 'delete'), ('setattr', 'Class.__setattr__'), ('relate', 'relate'), ('unrelate', 'unrelate')]


class Source(object):
    def __init__(self, repo_dir):
        self.funcs = {}          # 'Class.method' / 'function' -> (FunctionDef, class name or None)
        self.methods = {}        # method name -> ['Class.method', ...]
        self.classes = {}        # class name -> base names
        for rel in ('xtuml/meta.py', 'xtuml/load.py'):
            tree = ast.parse(open(os.path.join(repo_dir, rel), encoding='utf-8').read())
            for node in tree.body:
                if isinstance(node, ast.FunctionDef):
                    self.funcs.setdefault(node.name, (node, None))
                elif isinstance(node, ast.ClassDef):
                    self.classes[node.name] = [ast.unparse(b) for b in node.bases]
                    for sub in node.body:
                        if isinstance(sub, ast.FunctionDef):
                            q = '%s.%s' % (node.name, sub.name)
                            self.funcs[q] = (sub, node.name)
                            self.methods.setdefault(sub.name, []).append(q)

    def get(self, q):
        if q not in self.funcs:
            raise ValueError('%s not found in the source' % q)
        return self.funcs[q]


def _parents(fn):
    par = {}
    for node in ast.walk(fn):
        for ch in ast.iter_child_nodes(node):
            par[ch] = node
    return par


def _params(fn):
    a = fn.args
    return [x.arg for x in a.posonlyargs + a.args], (a.vararg.arg if a.vararg else None)


def _callee(src, call, cls, constructors=True):
    """qualified names of the project functions a call may reach ([] = not a project function);
    `constructors=False`: a constructor (or a base-class `__init__`) only writes the object being created"""
    f = call.func
    if isinstance(f, ast.Name):
        if f.id in src.classes:
            q = '%s.__init__' % f.id
            return [q] if (constructors and q in src.funcs) else []
        return [f.id] if f.id in src.funcs and src.funcs[f.id][1] is None else []
    if isinstance(f, ast.Attribute):
        if f.attr in src.classes and isinstance(f.value, ast.Name):          # xtuml.MetaModel(...)
            q = '%s.__init__' % f.attr
            return [q] if (constructors and q in src.funcs) else []
        if f.attr == '__init__':                                              # Base.__init__(self, ...)
            q = '%s.__init__' % ast.unparse(f.value)
            return [q] if (constructors and q in src.funcs) else []
        cands = src.methods.get(f.attr, [])
        if isinstance(f.value, ast.Name):
            t = cls if f.value.id == 'self' else RECEIVER_TYPES.get(f.value.id)
            if f.value.id in src.classes:                                     # ModelLoader._populate_matching_class
                t = f.value.id
            if t and '%s.%s' % (t, f.attr) in src.funcs:
                return ['%s.%s' % (t, f.attr)]
        return list(cands)
    return []


def escapes(src, q, expr, seen=None):
    """where the object denoted by `expr` (source text) inside function `q` is kept by reference"""
    seen = seen if seen is not None else set()
    if (q, expr) in seen:
        return []
    seen.add((q, expr))
    fn, cls = src.get(q)
    par = _parents(fn)
    out = []
    for node in ast.walk(fn):
        if not isinstance(node, (ast.Name, ast.Attribute)) or not isinstance(getattr(node, 'ctx', None), ast.Load):
            continue
        if ast.unparse(node) != expr:
            continue
        p = par.get(node)
        if isinstance(p, ast.Attribute) and ast.unparse(p) == expr:
            continue
        if isinstance(p, ast.Starred):
            continue                                  # *expr: unpacked into a new tuple
        if isinstance(p, (ast.For, ast.comprehension)) and p.iter is node:
            continue
        if isinstance(p, ast.Subscript) and p.value is node:
            if not isinstance(p.ctx, ast.Load):
                raise ValueError('%s: `%s` writes into %s' % (q, ast.unparse(par.get(p, p))[:80], expr))
            continue                                  # expr[i]: elements are immutable str / tuple
        if isinstance(p, ast.Attribute) and p.value is node:
            gp = par.get(p)
            if p.attr in MUTATING and isinstance(gp, ast.Call) and gp.func is p:
                raise ValueError('%s: `%s` mutates %s' % (q, ast.unparse(gp)[:80], expr))
            if not isinstance(p.ctx, ast.Load):
                raise ValueError('%s: `%s` writes an attribute of %s' % (q, ast.unparse(par.get(p, p))[:80], expr))
            continue                                  # expr.method(..): a read
        if isinstance(p, ast.Compare) or (isinstance(p, (ast.If, ast.IfExp, ast.While)) and p.test is node) or \
                (isinstance(p, ast.UnaryOp) and isinstance(p.op, ast.Not)):
            continue
        if isinstance(p, ast.BoolOp):
            # `x or []` / `x and y` evaluate to one of their operands: only a truth test may use them
            top = p
            while isinstance(par.get(top), (ast.BoolOp, ast.UnaryOp)) and \
                    (isinstance(par.get(top), ast.BoolOp) or isinstance(par.get(top).op, ast.Not)):
                top = par.get(top)
            gp = par.get(top)
            if (isinstance(gp, (ast.If, ast.IfExp, ast.While)) and gp.test is top) or isinstance(gp, ast.Assert) or \
                    (isinstance(top, ast.UnaryOp) and isinstance(top.op, ast.Not)):
                continue
            raise ValueError('%s: %s is an operand of `%s`, whose value may be the object itself' % (q, expr, ast.unparse(top)[:80]))
        if isinstance(p, ast.IfExp) and (p.body is node or p.orelse is node):
            raise ValueError('%s: %s is a branch of `%s`, whose value may be the object itself' % (q, expr, ast.unparse(p)[:80]))
        if isinstance(p, ast.Call) and node in p.args:
            f = p.func
            if isinstance(f, ast.Name) and f.id in COPIERS:
                continue
            if isinstance(f, ast.Attribute) and f.attr == 'join':
                continue
            if isinstance(f, ast.Attribute) and f.attr in KEEPERS and not _callee(src, p, cls):
                out.append('%s.%s(..)' % (ast.unparse(f.value), f.attr))
                continue
            if isinstance(f, ast.Attribute) and f.attr in ('extend', 'update') and not _callee(src, p, cls):
                continue
            targets = _callee(src, p, cls)
            if not targets:
                raise ValueError('%s: cannot follow %s into %s' % (q, expr, ast.unparse(f)))
            idx = p.args.index(node)
            for t in targets:
                tfn, tcls = src.get(t)
                names, vararg = _params(tfn)
                bound = tcls is not None and not any(isinstance(d, ast.Name) and d.id == 'staticmethod'
                                                     for d in tfn.decorator_list)
                if bound:
                    names = names[1:]
                if any(isinstance(a, ast.Starred) for a in p.args[:idx]):
                    raise ValueError('%s: star-argument before %s in %s' % (q, expr, ast.unparse(p)))
                if idx < len(names):
                    for e in escapes(src, t, names[idx], seen):
                        out.append(('%s.%s' % (tcls.replace('__init__', ''), e.split('.', 1)[1])
                                    if tcls and e.startswith('self.') else e))
                elif vararg:
                    continue                          # collected into the callee's own *args tuple
                else:
                    raise ValueError('%s: too many arguments in %s' % (q, ast.unparse(p)))
            continue
        if isinstance(p, ast.Assign) and p.value is node:
            for tg in p.targets:
                if isinstance(tg, ast.Name):
                    out.extend(escapes(src, q, tg.id, seen))          # alias
                elif isinstance(tg, (ast.Attribute, ast.Subscript)):
                    out.append(ast.unparse(tg))
                else:
                    raise ValueError('%s: unexpected assignment target for %s' % (q, expr))
            continue
        if isinstance(p, ast.AugAssign) and p.value is node:
            continue                                  # x += expr extends x with the elements
        if isinstance(p, ast.Return):
            out.append('return')
            continue
        raise ValueError('%s: unrecognised use of %s in `%s`' % (q, expr, ast.unparse(p)[:80]))
    return out


def _receiver_type(node, cls):
    if isinstance(node, ast.Name):
        if node.id == 'self':
            return cls
        return RECEIVER_TYPES.get(node.id)
    return None


def _is_local(fn, name):
    names, vararg = _params(fn)
    return name not in names and name != vararg


def writes_of(src, q):
    """fields written by the body of one function (not following calls) + the project functions it calls"""
    fn, cls = src.get(q)
    out, calls = set(), []
    link_like = cls is not None and 'dict' in src.classes.get(cls, [])

    def field_of(target, what):
        # X.f  /  X.f[..]  /  self[..]  /  self[..][..]
        t = target
        while isinstance(t, ast.Subscript):
            if isinstance(t.value, ast.Name) and t.value.id == 'self' and link_like:
                return '%s.items' % cls
            if isinstance(t.value, ast.Name):
                if _is_local(fn, t.value.id):
                    return None
                raise ValueError('%s: %s writes into parameter %s' % (q, what, t.value.id))
            t = t.value
        if isinstance(t, ast.Attribute):
            if t.attr == '__dict__':
                return 'Class.__dict__'
            rt = _receiver_type(t.value, cls)
            if rt is None:
                raise ValueError('%s: %s writes %s of an object of unknown type' % (q, what, ast.unparse(t)))
            return '%s.%s' % (rt, t.attr)
        if isinstance(t, ast.Name):
            return None                               # rebinding a local name
        raise ValueError('%s: unrecognised write target in %s' % (q, what))

    par = _parents(fn)
    for node in ast.walk(fn):
        if isinstance(node, ast.Attribute) and isinstance(node.ctx, ast.Load) and node.attr in TRACKED_FIELDS:
            p = par.get(node)
            where = ast.unparse(p)[:80] if p is not None else ast.unparse(node)
            if isinstance(p, ast.Attribute) and p.value is node:
                gp = par.get(p)
                if p.attr.startswith('__') and p.attr not in MUTATING and isinstance(gp, ast.Call) and gp.func is p:
                    raise ValueError('%s: `%s` calls a special method of a tracked list' % (q, ast.unparse(gp)[:80]))
            elif isinstance(p, ast.Assign) and p.value is node:
                raise ValueError('%s: `%s` binds a tracked list to another name' % (q, where))
            elif isinstance(p, (ast.Tuple, ast.List, ast.Set, ast.Dict)):
                raise ValueError('%s: `%s` puts a tracked list into a collection' % (q, where))
            elif isinstance(p, (ast.BoolOp, ast.NamedExpr, ast.Return, ast.Yield)) or \
                    (isinstance(p, ast.IfExp) and p.test is not node):
                raise ValueError('%s: `%s` hands a tracked list on under another name' % (q, where))
            elif isinstance(p, ast.keyword):
                raise ValueError('%s: `%s` passes a tracked list as a keyword argument' % (q, where))
            elif isinstance(p, ast.Call) and node in p.args:
                f_ = p.func
                known = (isinstance(f_, ast.Name) and (f_.id in COPIERS or f_.id in ('isinstance', 'type', 'id'))) or \
                        (isinstance(f_, ast.Attribute) and f_.attr == 'join') or bool(_callee(src, p, cls))
                if not known:
                    raise ValueError('%s: `%s` passes a tracked list to a function that is not a known reader' % (q, where))
        if isinstance(node, ast.Assign):
            for tg in node.targets:
                for el in (tg.elts if isinstance(tg, (ast.Tuple, ast.List)) else [tg]):
                    f = field_of(el, ast.unparse(node)[:60])
                    if f:
                        out.add(f)
        elif isinstance(node, ast.AugAssign):
            f = field_of(node.target, ast.unparse(node)[:60])
            if f:
                out.add(f)
        elif isinstance(node, ast.Delete):
            for tg in node.targets:
                f = field_of(tg, ast.unparse(node)[:60])
                if f:
                    out.add(f)
        elif isinstance(node, ast.Call):
            f = node.func
            if isinstance(f, ast.Name) and f.id == 'setattr':
                out.add('Class.__dict__')
            elif isinstance(f, ast.Name) and f.id == 'delattr':
                out.add('Class.__dict__')
            elif isinstance(f, ast.Name) and f.id == 'next' and node.args and \
                    ast.unparse(node.args[0]).endswith('id_generator'):
                out.add('IdGenerator._current')
            elif isinstance(f, ast.Attribute) and ast.unparse(f) == 'object.__setattr__':
                out.add('Class.__dict__')
            elif isinstance(f, ast.Attribute) and f.attr in MUTATING and not _callee(src, node, cls):
                w = field_of(f.value, ast.unparse(node)[:60]) if not isinstance(f.value, ast.Name) else \
                    (None if _is_local(fn, f.value.id) else '!')
                if w == '!':
                    raise ValueError('%s: %s mutates a parameter' % (q, ast.unparse(node)[:60]))
                if w:
                    out.add(w)
            calls.extend(_callee(src, node, cls, constructors=False))
    return out, calls


def mutator_writes(src, entry):
    done, todo, out = set(), [entry], set()
    while todo:
        q = todo.pop()
        if q in done:
            continue
        done.add(q)
        w, calls = writes_of(src, q)
        out |= w
        todo.extend(c for c in calls if c not in done)
    return sorted(out)


def _body(fn):
    body = list(fn.body)
    if body and isinstance(body[0], ast.Expr) and isinstance(body[0].value, ast.Constant) and \
            isinstance(body[0].value.value, str):
        body = body[1:]
    return body


def phase_order(src):
    fn, _ = src.get('ModelLoader.populate')
    out = []
    for st in _body(fn):
        if isinstance(st, ast.Expr) and isinstance(st.value, ast.Call) and isinstance(st.value.func, ast.Attribute) \
                and ast.unparse(st.value.func.value) == 'self' and st.value.func.attr.startswith('populate_') \
                and [ast.unparse(a) for a in st.value.args] == ['metamodel'] and not st.value.keywords:
            out.append(st.value.func.attr)
        else:
            raise ValueError('ModelLoader.populate: unexpected statement `%s`' % ast.unparse(st)[:80])
    return out


def build_returns_fresh(src):
    fn, _ = src.get('ModelLoader.build_metamodel')
    fresh = set()
    ok = True
    returns = 0
    for node in ast.walk(fn):
        if isinstance(node, (ast.Assign, ast.AugAssign, ast.AnnAssign)):
            targets = node.targets if isinstance(node, ast.Assign) else [node.target]
            for tg in targets:
                if isinstance(tg, ast.Name) and isinstance(node, ast.Assign) and isinstance(node.value, ast.Call) and \
                        ast.unparse(node.value.func).split('.')[-1] == 'MetaModel':
                    fresh.add(tg.id)
                elif not isinstance(tg, ast.Name):
                    ok = False                        # stores something on self / in a container
        elif isinstance(node, ast.Call) and isinstance(node.func, ast.Name) and node.func.id == 'setattr':
            ok = False
    for node in ast.walk(fn):
        if isinstance(node, ast.Return):
            returns += 1
            if not (isinstance(node.value, ast.Name) and node.value.id in fresh):
                ok = False
    return ok and returns >= 1 and len(fresh) >= 1


def _declared_fields(repo_dir):
    """statement class -> the attributes its __init__ assigns on self (must be exactly the fields listed here)"""
    tree = ast.parse(open(os.path.join(repo_dir, 'xtuml', 'load.py'), encoding='utf-8').read())
    out = {}
    for node in tree.body:
        if isinstance(node, ast.ClassDef) and node.name in SCALAR_FIELDS:
            if [ast.unparse(b_) for b_ in node.bases] != ['Stmt']:
                raise ValueError('%s: unexpected base classes' % node.name)
            fields = set()
            for sub in node.body:
                if isinstance(sub, ast.FunctionDef):
                    if sub.name != '__init__':
                        raise ValueError('%s: unexpected method %s' % (node.name, sub.name))
                    for st in ast.walk(sub):
                        if isinstance(st, ast.Attribute) and isinstance(st.ctx, ast.Store):
                            if ast.unparse(st.value) != 'self':
                                raise ValueError('%s.__init__: writes %s' % (node.name, ast.unparse(st)))
                            fields.add(st.attr)
                elif not (isinstance(sub, ast.Expr) and isinstance(sub.value, ast.Constant)):
                    raise ValueError('%s: unexpected class-level statement `%s`' % (node.name, ast.unparse(sub)[:60]))
            out[node.name] = fields
        elif isinstance(node, ast.ClassDef) and node.name == 'Stmt':
            names = set()
            for sub in node.body:
                if isinstance(sub, ast.Assign) and all(isinstance(t, ast.Name) for t in sub.targets) and \
                        isinstance(sub.value, ast.Constant) and sub.value.value is None:
                    names.update(t.id for t in sub.targets)
                elif not (isinstance(sub, ast.Expr) and isinstance(sub.value, ast.Constant)):
                    raise ValueError('Stmt: unexpected class-level statement `%s`' % ast.unparse(sub)[:60])
            if names != BASE_FIELDS:
                raise ValueError('Stmt: fields %s, expected %s' % (sorted(names), sorted(BASE_FIELDS)))
    for scls in SCALAR_FIELDS:
        want = set(f for c, f in STATEMENT_FIELDS if c == scls) | SCALAR_FIELDS[scls]
        if out.get(scls) != want:
            raise ValueError('%s: fields %s, the analysis knows %s (a new field must be classified as list-valued or '
                             'immutable)' % (scls, sorted(out.get(scls, [])), sorted(want)))
    return out


def _local_methods(src, fn, cls):
    """local name -> qualified project functions, for `name = self.<method>` / `name = <Class>.<method>`"""
    out = {}
    for node in ast.walk(fn):
        if isinstance(node, ast.Assign) and len(node.targets) == 1 and isinstance(node.targets[0], ast.Name) and \
                isinstance(node.value, ast.Attribute) and isinstance(node.value.value, ast.Name):
            recv = node.value.value.id
            t = cls if recv == 'self' else (recv if recv in src.classes else None)
            if t and '%s.%s' % (t, node.value.attr) in src.funcs:
                out.setdefault(node.targets[0].id, []).append('%s.%s' % (t, node.value.attr))
    return out


def statement_scopes(src, q, var, scls, seen):
    """the (function, variable) pairs through which a statement object of class `scls` is visible, starting from
    variable `var` of function `q`; raises on any use of the object other than field access, isinstance() or being
    passed whole to a project function"""
    if (q, var) in seen:
        return
    seen.add((q, var))
    fn, cls = src.get(q)
    par = _parents(fn)
    local = _local_methods(src, fn, cls)
    known = set(f for c, f in STATEMENT_FIELDS if c == scls) | SCALAR_FIELDS[scls] | BASE_FIELDS
    for node in ast.walk(fn):
        if not (isinstance(node, ast.Name) and node.id == var):
            continue
        p = par.get(node)
        if not isinstance(node.ctx, ast.Load):
            if isinstance(p, ast.For) and p.target is node:
                continue
            raise ValueError('%s: the statement variable %s is rebound in `%s`' % (q, var, ast.unparse(p)[:80]))
        if isinstance(p, ast.Attribute) and p.value is node:
            if not isinstance(p.ctx, ast.Load):
                raise ValueError('%s: `%s` writes a field of the statement' % (q, ast.unparse(par.get(p, p))[:80]))
            if p.attr not in known:
                raise ValueError('%s: unknown statement field %s.%s' % (q, var, p.attr))
            continue
        if isinstance(p, ast.Call) and node in p.args and not p.keywords:
            f = p.func
            if isinstance(f, ast.Name) and f.id in INSPECTORS:
                continue
            targets = local.get(f.id, []) if isinstance(f, ast.Name) and f.id in local else _callee(src, p, cls)
            if not targets:
                raise ValueError('%s: the statement object is passed whole to %s, which is not followed' % (q, ast.unparse(f)))
            idx = p.args.index(node)
            if any(isinstance(a_, ast.Starred) for a_ in p.args[:idx]):
                raise ValueError('%s: star-argument before the statement in %s' % (q, ast.unparse(p)[:80]))
            for t in targets:
                tfn, tcls = src.get(t)
                names, _ = _params(tfn)
                bound = tcls is not None and not any(isinstance(d, ast.Name) and d.id == 'staticmethod'
                                                     for d in tfn.decorator_list)
                if bound:
                    names = names[1:]
                if idx >= len(names):
                    raise ValueError('%s: cannot bind the statement in %s' % (q, ast.unparse(p)[:80]))
                statement_scopes(src, t, names[idx], scls, seen)
            continue
        raise ValueError('%s: the statement object %s is used whole in `%s` (renamed, stored, returned, compared ...)'
                         % (q, var, ast.unparse(p)[:80] if p is not None else var))


def _statement_loops(src, phases):
    """[(function, loop variable, statement class)] for the loops over self.statements of the populate phases; any
    other use of self.statements in ModelLoader.populate / build_metamodel / the phases raises"""
    out = []
    for name in ['populate', 'build_metamodel'] + list(phases):
        q = 'ModelLoader.%s' % name
        fn, _ = src.get(q)
        par = _parents(fn)
        for node in ast.walk(fn):
            if isinstance(node, ast.Attribute) and ast.unparse(node) == 'self.statements':
                p = par.get(node)
                if not (isinstance(p, ast.For) and p.iter is node and isinstance(p.target, ast.Name)):
                    raise ValueError('%s: self.statements is used other than in `for <v> in self.statements:`' % q)
                var = p.target.id
                classes = set()
                for sub in ast.walk(p):
                    if isinstance(sub, ast.Call) and isinstance(sub.func, ast.Name) and sub.func.id == 'isinstance' \
                            and len(sub.args) == 2 and ast.unparse(sub.args[0]) == var:
                        classes.add(ast.unparse(sub.args[1]))
                if len(classes) != 1 or list(classes)[0] not in SCALAR_FIELDS:
                    raise ValueError('%s: the loop over self.statements does not select one statement class: %s'
                                     % (q, sorted(classes)))
                first = p.body[0]
                sel = list(classes)[0]
                ok = isinstance(first, ast.If) and ast.unparse(first.test) in (
                    'isinstance(%s, %s)' % (var, sel), 'not isinstance(%s, %s)' % (var, sel))
                if ok and ast.unparse(first.test).startswith('not'):
                    ok = [ast.unparse(x) for x in first.body] == ['continue'] and not first.orelse
                elif ok:
                    ok = len(p.body) == 1 and not first.orelse
                if not ok:
                    raise ValueError('%s: the statements of the loop are not guarded by the isinstance test' % q)
                out.append((q, var, sel))
    return out


def by_ref(src, phases):
    scopes = {}
    for q, var, scls in _statement_loops(src, phases):
        seen = set()
        statement_scopes(src, q, var, scls, seen)
        scopes.setdefault(scls, set()).update(seen)
    rows = []
    for scls, field in STATEMENT_FIELDS:
        where, uses = [], 0
        for q, var in sorted(scopes.get(scls, ())):
            expr = '%s.%s' % (var, field)
            fn, _ = src.get(q)
            uses += sum(1 for n in ast.walk(fn) if isinstance(n, ast.Attribute) and ast.unparse(n) == expr)
            where.extend(escapes(src, q, expr))
        if uses == 0:
            raise ValueError('no recognised use of %s.%s in the populate phases: the analysis cannot say where the '
                             'list goes' % (scls, field))
        rows.append((scls, field, sorted(set(where))))
    return rows


def _s(x):
    if not all(32 <= ord(c) < 127 and c not in '"\\' for c in x):
        raise ValueError('unexpected character in %r' % x)
    return '"%s"' % x


def _strs(xs):
    return '[' + ', '.join(_s(x) for x in xs) + ']'


def generate(repo_dir):
    src = Source(repo_dir)
    phases = phase_order(src)
    fresh = build_returns_fresh(src)
    _declared_fields(repo_dir)
    refs = by_ref(src, [p for p in phases if p != 'populate_connections'])
    muts = [(name, mutator_writes(src, entry)) for name, entry in MUTATORS]
    lines = [
        '/-',
        '  GENERATED by translator/gen_sharing.py from xtuml/load.py and xtuml/meta.py — do not edit.',
        '  phaseOrder: the populate_* calls of ModelLoader.populate in source order.',
        '  buildReturnsFresh: build_metamodel creates a MetaModel, populates it, returns it and keeps nothing on self.',
        '  byRef: per list-valued statement field, the metamodel-side places that keep the statement\'s own list object.',
        '  mutatorWrites: per listed mutation, the fields of metamodel-side objects its code writes (transitively).',
        '-/',
        'namespace Pyx.Gen.Sharing',
        '',
        'def phaseOrder : List String :=',
        '  %s' % _strs(phases),
        '',
        'def buildReturnsFresh : Bool := %s' % ('true' if fresh else 'false'),
        '',
        'def byRef : List (String × String × List String) :=',
        '  [ ' + ',\n    '.join('(%s, %s, %s)' % (_s(a), _s(b), _strs(c)) for a, b, c in refs) + ' ]',
        '',
        'def mutatorWrites : List (String × List String) :=',
        '  [ ' + ',\n    '.join('(%s, %s)' % (_s(a), _strs(b)) for a, b in muts) + ' ]',
        '',
        'end Pyx.Gen.Sharing',
        '',
    ]
    return [('Sharing.lean', '\n'.join(lines))]


if __name__ == '__main__':
    import sys
    for name, text in generate(sys.argv[1] if len(sys.argv) > 1 else '/repo'):
        print(text)
