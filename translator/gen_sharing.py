"""xtuml/load.py + xtuml/meta.py -> lean/Gen/Sharing.lean  (C18, and the phase order used by C03)

Read with `ast` only (the repository is never imported).  Four tables:

  phaseOrder         the `self.populate_*` calls of `ModelLoader.populate`, in source order
  buildReturnsFresh  `ModelLoader.build_metamodel` creates a `MetaModel(...)`, populates it and returns it,
                     and stores nothing on `self` (a loader that cached the metamodel would hand the same
                     object to two builds)
  byRef              for every list-valued field of a statement object (`stmt.attributes`, `stmt.source_keys`,
                     `stmt.target_keys`, `stmt.values`, `stmt.names`): the metamodel-side attributes into which the
                     `populate_*` / `define_*` code stores the statement's OWN list object (a small escape analysis:
                     the expression is followed through the calls it is passed to; iteration, zip(), len(), set(),
                     tuple(), dict(), subscripting, star-unpacking copy or only read it; `x.attr = <expr>` and
                     `container.append(<expr>)` keep it)
  mutatorWrites      for every mutation the property lists, the fields of metamodel-side objects its code writes
                     (transitively through the functions of xtuml/meta.py it calls): `X.f.append(..)`, `X.f[..] = ..`,
                     `del X.f[..]`, `X.f |= ..`, `X.f = ..`, `self[..] = ..` / `self[..].add(..)` inside `Link`,
                     `setattr(inst, ..)`, `next(<..>.id_generator)`

Any use the analysis does not recognise raises (= broken tie), never guesses.
"""
import ast
import os

OUTPUTS = ['Sharing.lean']

COPIERS = {'zip', 'len', 'set', 'list', 'tuple', 'dict', 'sorted', 'enumerate', 'frozenset', 'range', 'isinstance',
           'str', 'iter', 'reversed', 'any', 'all', 'min', 'max', 'sum', 'map', 'filter', 'repr', 'bool'}
KEEPERS = {'append', 'add', 'insert', 'appendleft'}            # container.m(obj) keeps obj itself
MUTATING = {'append', 'insert', 'remove', 'add', 'discard', 'pop', 'clear', 'extend', 'update', 'setdefault',
            'popitem', 'sort', 'reverse', 'appendleft', 'popleft'}
RECEIVER_TYPES = {'metaclass': 'MetaClass', 'source_class': 'MetaClass', 'target_class': 'MetaClass',
                  'source_metaclass': 'MetaClass', 'target_metaclass': 'MetaClass', 'inst': 'Class',
                  'instance': 'Class', 'metamodel': 'MetaModel', 'ass': 'Association'}
STATEMENT_FIELDS = [('CreateClassStmt', 'attributes'), ('CreateAssociationStmt', 'source_keys'),
                    ('CreateAssociationStmt', 'target_keys'), ('CreateUniqueStmt', 'attributes'),
                    ('CreateInstanceStmt', 'values'), ('CreateInstanceStmt', 'names')]
POPULATE_OF = {'CreateClassStmt': ['populate_classes'], 'CreateAssociationStmt': ['populate_associations'],
               'CreateUniqueStmt': ['populate_unique_identifiers'],
               'CreateInstanceStmt': ['populate_instances', '_populate_instance_with_positional_arguments',
                                      '_populate_instance_with_named_arguments']}
MUTATORS = [('append_attribute', 'MetaClass.append_attribute'), ('insert_attribute', 'MetaClass.insert_attribute'),
            ('delete_attribute', 'MetaClass.delete_attribute'),
            ('define_unique_identifier', 'MetaModel.define_unique_identifier'), ('new', 'MetaModel.new'),
            ('delete', 'delete'), ('setattr', 'Class.__setattr__'), ('relate', 'relate'), ('unrelate', 'unrelate')]


class Source(object):
    def __init__(self, repo_dir):
        self.funcs = {}          # 'Class.method' / 'function' -> (FunctionDef, class name or None)
        self.methods = {}        # method name -> ['Class.method', ...]
        self.classes = {}        # class name -> base names
        for rel in ('xtuml/meta.py', 'xtuml/load.py'):
            tree = ast.parse(open(os.path.join(repo_dir, rel), encoding='utf-8').read())
            for node in tree.body:
                if isinstance(node, ast.FunctionDef):
                    self.funcs.setdefault(node.name, (node, None))
                elif isinstance(node, ast.ClassDef):
                    self.classes[node.name] = [ast.unparse(b) for b in node.bases]
                    for sub in node.body:
                        if isinstance(sub, ast.FunctionDef):
                            q = '%s.%s' % (node.name, sub.name)
                            self.funcs[q] = (sub, node.name)
                            self.methods.setdefault(sub.name, []).append(q)

    def get(self, q):
        if q not in self.funcs:
            raise ValueError('%s not found in the source' % q)
        return self.funcs[q]


def _parents(fn):
    par = {}
    for node in ast.walk(fn):
        for ch in ast.iter_child_nodes(node):
            par[ch] = node
    return par


def _params(fn):
    a = fn.args
    return [x.arg for x in a.posonlyargs + a.args], (a.vararg.arg if a.vararg else None)


def _callee(src, call, cls, constructors=True):
    """qualified names of the project functions a call may reach ([] = not a project function);
    `constructors=False`: a constructor (or a base-class `__init__`) only writes the object being created"""
    f = call.func
    if isinstance(f, ast.Name):
        if f.id in src.classes:
            q = '%s.__init__' % f.id
            return [q] if (constructors and q in src.funcs) else []
        return [f.id] if f.id in src.funcs and src.funcs[f.id][1] is None else []
    if isinstance(f, ast.Attribute):
        if f.attr in src.classes and isinstance(f.value, ast.Name):          # xtuml.MetaModel(...)
            q = '%s.__init__' % f.attr
            return [q] if (constructors and q in src.funcs) else []
        if f.attr == '__init__':                                              # Base.__init__(self, ...)
            q = '%s.__init__' % ast.unparse(f.value)
            return [q] if (constructors and q in src.funcs) else []
        cands = src.methods.get(f.attr, [])
        if isinstance(f.value, ast.Name):
            t = cls if f.value.id == 'self' else RECEIVER_TYPES.get(f.value.id)
            if f.value.id in src.classes:                                     # ModelLoader._populate_matching_class
                t = f.value.id
            if t and '%s.%s' % (t, f.attr) in src.funcs:
                return ['%s.%s' % (t, f.attr)]
        return list(cands)
    return []


def escapes(src, q, expr, seen=None):
    """where the object denoted by `expr` (source text) inside function `q` is kept by reference"""
    seen = seen if seen is not None else set()
    if (q, expr) in seen:
        return []
    seen.add((q, expr))
    fn, cls = src.get(q)
    par = _parents(fn)
    out = []
    for node in ast.walk(fn):
        if not isinstance(node, (ast.Name, ast.Attribute)) or not isinstance(getattr(node, 'ctx', None), ast.Load):
            continue
        if ast.unparse(node) != expr:
            continue
        p = par.get(node)
        if isinstance(p, ast.Attribute) and ast.unparse(p) == expr:
            continue
        if isinstance(p, ast.Starred):
            continue                                  # *expr: unpacked into a new tuple
        if isinstance(p, (ast.For, ast.comprehension)) and p.iter is node:
            continue
        if isinstance(p, (ast.Subscript, ast.Attribute)) and p.value is node:
            continue                                  # expr[i], expr.method: elements are immutable str / tuple
        if isinstance(p, (ast.Compare, ast.BoolOp, ast.UnaryOp)) or (isinstance(p, (ast.If, ast.IfExp, ast.While)) and p.test is node):
            continue
        if isinstance(p, ast.Call) and node in p.args:
            f = p.func
            if isinstance(f, ast.Name) and f.id in COPIERS:
                continue
            if isinstance(f, ast.Attribute) and f.attr == 'join':
                continue
            if isinstance(f, ast.Attribute) and f.attr in KEEPERS and not _callee(src, p, cls):
                out.append('%s.%s(..)' % (ast.unparse(f.value), f.attr))
                continue
            if isinstance(f, ast.Attribute) and f.attr in ('extend', 'update') and not _callee(src, p, cls):
                continue
            targets = _callee(src, p, cls)
            if not targets:
                raise ValueError('%s: cannot follow %s into %s' % (q, expr, ast.unparse(f)))
            idx = p.args.index(node)
            for t in targets:
                tfn, tcls = src.get(t)
                names, vararg = _params(tfn)
                bound = tcls is not None and not any(isinstance(d, ast.Name) and d.id == 'staticmethod'
                                                     for d in tfn.decorator_list)
                if bound:
                    names = names[1:]
                if any(isinstance(a, ast.Starred) for a in p.args[:idx]):
                    raise ValueError('%s: star-argument before %s in %s' % (q, expr, ast.unparse(p)))
                if idx < len(names):
                    for e in escapes(src, t, names[idx], seen):
                        out.append(('%s.%s' % (tcls.replace('__init__', ''), e.split('.', 1)[1])
                                    if tcls and e.startswith('self.') else e))
                elif vararg:
                    continue                          # collected into the callee's own *args tuple
                else:
                    raise ValueError('%s: too many arguments in %s' % (q, ast.unparse(p)))
            continue
        if isinstance(p, ast.Assign) and p.value is node:
            for tg in p.targets:
                if isinstance(tg, ast.Name):
                    out.extend(escapes(src, q, tg.id, seen))          # alias
                elif isinstance(tg, (ast.Attribute, ast.Subscript)):
                    out.append(ast.unparse(tg))
                else:
                    raise ValueError('%s: unexpected assignment target for %s' % (q, expr))
            continue
        if isinstance(p, ast.AugAssign) and p.value is node:
            continue                                  # x += expr extends x with the elements
        if isinstance(p, ast.Return):
            out.append('return')
            continue
        raise ValueError('%s: unrecognised use of %s in `%s`' % (q, expr, ast.unparse(p)[:80]))
    return out


def _receiver_type(node, cls):
    if isinstance(node, ast.Name):
        if node.id == 'self':
            return cls
        return RECEIVER_TYPES.get(node.id)
    return None


def _is_local(fn, name):
    names, vararg = _params(fn)
    return name not in names and name != vararg


def writes_of(src, q):
    """fields written by the body of one function (not following calls) + the project functions it calls"""
    fn, cls = src.get(q)
    out, calls = set(), []
    link_like = cls is not None and 'dict' in src.classes.get(cls, [])

    def field_of(target, what):
        # X.f  /  X.f[..]  /  self[..]  /  self[..][..]
        t = target
        while isinstance(t, ast.Subscript):
            if isinstance(t.value, ast.Name) and t.value.id == 'self' and link_like:
                return '%s.items' % cls
            if isinstance(t.value, ast.Name):
                if _is_local(fn, t.value.id):
                    return None
                raise ValueError('%s: %s writes into parameter %s' % (q, what, t.value.id))
            t = t.value
        if isinstance(t, ast.Attribute):
            if t.attr == '__dict__':
                return 'Class.__dict__'
            rt = _receiver_type(t.value, cls)
            if rt is None:
                raise ValueError('%s: %s writes %s of an object of unknown type' % (q, what, ast.unparse(t)))
            return '%s.%s' % (rt, t.attr)
        if isinstance(t, ast.Name):
            return None                               # rebinding a local name
        raise ValueError('%s: unrecognised write target in %s' % (q, what))

    for node in ast.walk(fn):
        if isinstance(node, ast.Assign):
            for tg in node.targets:
                for el in (tg.elts if isinstance(tg, (ast.Tuple, ast.List)) else [tg]):
                    f = field_of(el, ast.unparse(node)[:60])
                    if f:
                        out.add(f)
        elif isinstance(node, ast.AugAssign):
            f = field_of(node.target, ast.unparse(node)[:60])
            if f:
                out.add(f)
        elif isinstance(node, ast.Delete):
            for tg in node.targets:
                f = field_of(tg, ast.unparse(node)[:60])
                if f:
                    out.add(f)
        elif isinstance(node, ast.Call):
            f = node.func
            if isinstance(f, ast.Name) and f.id == 'setattr':
                out.add('Class.__dict__')
            elif isinstance(f, ast.Name) and f.id == 'delattr':
                out.add('Class.__dict__')
            elif isinstance(f, ast.Name) and f.id == 'next' and node.args and \
                    ast.unparse(node.args[0]).endswith('id_generator'):
                out.add('IdGenerator._current')
            elif isinstance(f, ast.Attribute) and ast.unparse(f) == 'object.__setattr__':
                out.add('Class.__dict__')
            elif isinstance(f, ast.Attribute) and f.attr in MUTATING and not _callee(src, node, cls):
                w = field_of(f.value, ast.unparse(node)[:60]) if not isinstance(f.value, ast.Name) else \
                    (None if _is_local(fn, f.value.id) else '!')
                if w == '!':
                    raise ValueError('%s: %s mutates a parameter' % (q, ast.unparse(node)[:60]))
                if w:
                    out.add(w)
            calls.extend(_callee(src, node, cls, constructors=False))
    return out, calls


def mutator_writes(src, entry):
    done, todo, out = set(), [entry], set()
    while todo:
        q = todo.pop()
        if q in done:
            continue
        done.add(q)
        w, calls = writes_of(src, q)
        out |= w
        todo.extend(c for c in calls if c not in done)
    return sorted(out)


def _body(fn):
    body = list(fn.body)
    if body and isinstance(body[0], ast.Expr) and isinstance(body[0].value, ast.Constant) and \
            isinstance(body[0].value.value, str):
        body = body[1:]
    return body


def phase_order(src):
    fn, _ = src.get('ModelLoader.populate')
    out = []
    for st in _body(fn):
        if isinstance(st, ast.Expr) and isinstance(st.value, ast.Call) and isinstance(st.value.func, ast.Attribute) \
                and ast.unparse(st.value.func.value) == 'self' and st.value.func.attr.startswith('populate_') \
                and [ast.unparse(a) for a in st.value.args] == ['metamodel'] and not st.value.keywords:
            out.append(st.value.func.attr)
        else:
            raise ValueError('ModelLoader.populate: unexpected statement `%s`' % ast.unparse(st)[:80])
    return out


def build_returns_fresh(src):
    fn, _ = src.get('ModelLoader.build_metamodel')
    fresh = set()
    ok = True
    returns = 0
    for node in ast.walk(fn):
        if isinstance(node, (ast.Assign, ast.AugAssign, ast.AnnAssign)):
            targets = node.targets if isinstance(node, ast.Assign) else [node.target]
            for tg in targets:
                if isinstance(tg, ast.Name) and isinstance(node, ast.Assign) and isinstance(node.value, ast.Call) and \
                        ast.unparse(node.value.func).split('.')[-1] == 'MetaModel':
                    fresh.add(tg.id)
                elif not isinstance(tg, ast.Name):
                    ok = False                        # stores something on self / in a container
        elif isinstance(node, ast.Call) and isinstance(node.func, ast.Name) and node.func.id == 'setattr':
            ok = False
    for node in ast.walk(fn):
        if isinstance(node, ast.Return):
            returns += 1
            if not (isinstance(node.value, ast.Name) and node.value.id in fresh):
                ok = False
    return ok and returns >= 1 and len(fresh) >= 1


def by_ref(src):
    rows = []
    for scls, field in STATEMENT_FIELDS:
        expr = 'stmt.%s' % field
        where = []
        for fn_name in POPULATE_OF[scls]:
            where.extend(escapes(src, 'ModelLoader.%s' % fn_name, expr))
        rows.append((scls, field, sorted(set(where))))
    return rows


def _s(x):
    if not all(32 <= ord(c) < 127 and c not in '"\\' for c in x):
        raise ValueError('unexpected character in %r' % x)
    return '"%s"' % x


def _strs(xs):
    return '[' + ', '.join(_s(x) for x in xs) + ']'


def generate(repo_dir):
    src = Source(repo_dir)
    phases = phase_order(src)
    fresh = build_returns_fresh(src)
    refs = by_ref(src)
    muts = [(name, mutator_writes(src, entry)) for name, entry in MUTATORS]
    lines = [
        '/-',
        '  GENERATED by translator/gen_sharing.py from xtuml/load.py and xtuml/meta.py — do not edit.',
        '  phaseOrder: the populate_* calls of ModelLoader.populate in source order.',
        '  buildReturnsFresh: build_metamodel creates a MetaModel, populates it, returns it and keeps nothing on self.',
        '  byRef: per list-valued statement field, the metamodel-side places that keep the statement\'s own list object.',
        '  mutatorWrites: per listed mutation, the fields of metamodel-side objects its code writes (transitively).',
        '-/',
        'namespace Pyx.Gen.Sharing',
        '',
        'def phaseOrder : List String :=',
        '  %s' % _strs(phases),
        '',
        'def buildReturnsFresh : Bool := %s' % ('true' if fresh else 'false'),
        '',
        'def byRef : List (String × String × List String) :=',
        '  [ ' + ',\n    '.join('(%s, %s, %s)' % (_s(a), _s(b), _strs(c)) for a, b, c in refs) + ' ]',
        '',
        'def mutatorWrites : List (String × List String) :=',
        '  [ ' + ',\n    '.join('(%s, %s)' % (_s(a), _strs(b)) for a, b in muts) + ' ]',
        '',
        'end Pyx.Gen.Sharing',
        '',
    ]
    return [('Sharing.lean', '\n'.join(lines))]


if __name__ == '__main__':
    import sys
    for name, text in generate(sys.argv[1] if len(sys.argv) > 1 else '/repo'):
        print(text)
