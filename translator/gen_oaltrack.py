"""Translator for the position stamping of the OAL parser: lean/Gen/OalTrack.lean.:
Reads bridgepoint/oal.py with `ast` (never imports it):

  every `p_*` production function of OALParser, in source order: the productions of its docstring (PLY grammar
      syntax: `lhs : sym sym | sym ...`, `%prec X` removed, empty alternatives), whether it is decorated with
      `@track_production`, and what it returns in p[0]: a Node class instance, one of its right-hand symbols
      (`p[0] = p[i]`), or something else (string, None)
  `set_positional_info`: start = p.lexpos(1) / p.lineno(1), the end symbol (last symbol, or the walk back over
      symbols without `endlexpos`), end = p.lexspan(last)[1] / p.linespan(last)[1], the two column formulas and the
      character stream slice - any other shape raises (a broken tie, reported before any test runs)
  `track_production`: stamps `p[0]` when it is a Node and the production is not empty
  `OALParser.text_input`: a fresh lexer per input (`lexer = lex.lex(...)` inside the method) and `tracking=1`
      - the model starts every text at line 1 and relies on yacc's position tracking

and computes from the grammar: the nullable nonterminals, and the largest sets of nonterminals that are
  startSolid  every production is non-empty and begins with a token or a startSolid nonterminal
  endSolid    every production is non-empty and ends with a token or an endSolid nonterminal
  endOk       every production is empty or ends with a token or an endSolid nonterminal
(the Lean side only needs that these sets are CLOSED in that sense and re-checks it with `decide`).
"""
import ast
import os

OUTPUTS = ['OalTrack.lean']


class Shape(Exception):
    pass


# node classes that are containers / auxiliary parts, not "statement and expression nodes"
NOT_CHECKED = {'Node', 'BodyNode', 'BlockNode', 'StatementListNode', 'ElIfListNode', 'NavigationListNode',
               'ParameterListNode', 'EventDataListNode', 'ParameterNode', 'EventSpecNode', 'EventDataItemNode',
               'NavigationStepNode'}


def _dump(n):
    return ast.dump(n, annotate_fields=False)


def _is_p(node, i=None):
    """node is  p[<int>]"""
    if not (isinstance(node, ast.Subscript) and isinstance(node.value, ast.Name) and node.value.id == 'p'):
        return False
    idx = node.slice
    if not (isinstance(idx, ast.Constant) and isinstance(idx.value, int)):
        return False
    return i is None or idx.value == i


def parse_doc(fn_name, doc):
    """productions of a PLY docstring: [(lhs, [symbols])]"""
    out = []
    last = None
    for line in doc.splitlines():
        parts = line.split()
        if not parts:
            continue
        if parts[0] == '|':
            if last is None:
                raise Shape('%s: misplaced |' % fn_name)
            lhs, syms = last, parts[1:]
        else:
            if len(parts) < 2 or parts[1] not in (':', '::='):
                raise Shape('%s: malformed production %r' % (fn_name, line))
            lhs, syms = parts[0], parts[2:]
            last = lhs
        if '%prec' in syms:
            k = syms.index('%prec')
            if k != len(syms) - 2:
                raise Shape('%s: malformed %%prec' % fn_name)
            syms = syms[:k]
        if '|' in syms:
            # alternatives on one line
            cur = []
            for s_ in syms + ['|']:
                if s_ == '|':
                    out.append((lhs, cur))
                    cur = []
                else:
                    cur.append(s_)
            continue
        out.append((lhs, syms))
    if not out:
        raise Shape('%s: no production in the docstring' % fn_name)
    return out


def node_classes(tree):
    bases = {}
    for n in tree.body:
        if isinstance(n, ast.ClassDef):
            bases[n.name] = [b.id for b in n.bases if isinstance(b, ast.Name)]
    nodes = set()
    changed = True
    while changed:
        changed = False
        for c, bs in bases.items():
            if c not in nodes and (c == 'Node' or any(b in nodes for b in bs)):
                nodes.add(c)
                changed = True
    return nodes


def result_of(fn, nodes):
    """('node', cls) | ('pass', i) | ('other',)"""
    for st in fn.body:
        if isinstance(st, ast.Assign) and len(st.targets) == 1 and _is_p(st.targets[0], 0):
            v = st.value
            if isinstance(v, ast.Call) and isinstance(v.func, ast.Name) and v.func.id in nodes:
                return ('node', v.func.id)
            if _is_p(v):
                return ('pass', v.slice.value)
            return ('other',)
    return ('other',)


def check_set_positional_info(tree):
    """-> 'walkback' | 'last'; raises when the function does not have one of the two known shapes"""
    fns = [n for n in tree.body if isinstance(n, ast.FunctionDef) and n.name == 'set_positional_info']
    if len(fns) != 1:
        raise Shape('set_positional_info not found')
    fn = fns[0]
    if [a.arg for a in fn.args.args] != ['node', 'p']:
        raise Shape('set_positional_info: unexpected parameters')
    src = {}
    mode = None
    body = [s for s in fn.body if not (isinstance(s, ast.Expr) and isinstance(s.value, ast.Constant))]

    def attr_of(t):
        # node.position.<x>  or node.<x>
        if isinstance(t, ast.Attribute) and isinstance(t.value, ast.Attribute) and t.value.attr == 'position' \
                and isinstance(t.value.value, ast.Name) and t.value.value.id == 'node':
            return 'position.' + t.attr
        if isinstance(t, ast.Attribute) and isinstance(t.value, ast.Name) and t.value.id == 'node':
            return t.attr
        return None
    last_expr = None
    for st in body:
        if isinstance(st, ast.Assign) and len(st.targets) == 1:
            t = st.targets[0]
            if isinstance(t, ast.Name) and t.id == 'last':
                if ast.unparse(st.value) != 'len(p) - 1':
                    raise Shape('set_positional_info: unexpected initial value of `last`')
                last_expr = 'var'
                continue
            if isinstance(t, ast.Tuple) and len(t.elts) == 2 and isinstance(t.elts[0], ast.Name):
                a = attr_of(t.elts[1])
                src[a] = ast.unparse(st.value)
                continue
            a = attr_of(t)
            if a is None:
                raise Shape('set_positional_info: unexpected assignment %s' % ast.unparse(st)[:60])
            src[a] = ast.unparse(st.value)
        elif isinstance(st, ast.While):
            if last_expr != 'var':
                raise Shape('set_positional_info: walk-back loop without `last`')
            if ast.unparse(st.test) != "last > 1 and (not hasattr(p.slice[last], 'endlexpos'))":
                raise Shape('set_positional_info: unexpected walk-back condition: %s' % ast.unparse(st.test))
            if not (len(st.body) == 1 and ast.unparse(st.body[0]) == 'last -= 1' and not st.orelse):
                raise Shape('set_positional_info: unexpected walk-back body')
            mode = 'walkback'
        else:
            raise Shape('set_positional_info: unexpected statement %s' % ast.unparse(st)[:60])
    want = {
        'position': 'Position()',
        'position.label': 'p.lexer.label',
        'position.start_stream': 'p.lexpos(1)',
        'position.start_line': 'p.lineno(1)',
        'position.start_column': 'find_column(p.lexer.lexdata, node.position.start_stream)',
        'position.end_column': 'find_column(p.lexer.lexdata, node.position.end_stream) - 1',
        'character_stream': 'p.lexer.lexdata[node.position.start_stream:node.position.end_stream]',
    }
    for k, v in want.items():
        if src.get(k) != v:
            raise Shape('set_positional_info: %s is computed as %r, expected %r' % (k, src.get(k), v))
    if mode == 'walkback':
        ends = ('p.lexspan(last)', 'p.linespan(last)')
    else:
        ends = ('p.lexspan(len(p) - 1)', 'p.linespan(len(p) - 1)')
        mode = 'last'
    if (src.get('position.end_stream'), src.get('position.end_line')) != ends:
        raise Shape('set_positional_info: end position is taken from %r / %r' % (
            src.get('position.end_stream'), src.get('position.end_line')))
    extra = set(src) - set(want) - {'position.end_stream', 'position.end_line'}
    if extra:
        raise Shape('set_positional_info: unexpected extra assignments %s' % sorted(extra))
    fc = [n for n in tree.body if isinstance(n, ast.FunctionDef) and n.name == 'find_column']
    if len(fc) != 1 or ast.unparse(fc[0].body[-1]) != "return lexpos - lexdata.rfind('\\n', 0, lexpos)":
        raise Shape('find_column: unexpected body')
    return mode


def check_track_production(tree):
    fns = [n for n in tree.body if isinstance(n, ast.FunctionDef) and n.name == 'track_production']
    if len(fns) != 1:
        raise Shape('track_production not found')
    inner = [n for n in fns[0].body if isinstance(n, ast.FunctionDef)]
    if len(inner) != 1:
        raise Shape('track_production: wrapper not found')
    body = '\n'.join(ast.unparse(s) for s in inner[0].body)
    want = ('r = f(self, p)\nnode = p[0]\nif isinstance(node, Node) and len(p) > 1:\n'
            '    set_positional_info(node, p)\nreturn r')
    if body != want:
        raise Shape('track_production: unexpected wrapper body')


def check_text_input(cls):
    fns = [n for n in cls.body if isinstance(n, ast.FunctionDef) and n.name == 'text_input']
    if len(fns) != 1:
        raise Shape('OALParser.text_input not found')
    fn = fns[0]
    fresh = False
    tracking = False
    for st in fn.body:
        if isinstance(st, ast.Assign) and len(st.targets) == 1 and isinstance(st.targets[0], ast.Name) \
                and st.targets[0].id == 'lexer' and isinstance(st.value, ast.Call) \
                and ast.unparse(st.value.func) == 'lex.lex':
            fresh = True
    for n in ast.walk(fn):
        if isinstance(n, ast.Call) and ast.unparse(n.func) == 'self.parser.parse':
            if n.args or any(k.arg is None for k in n.keywords):
                raise Shape('text_input: self.parser.parse called with positional / * / ** arguments')
            kw = {k.arg: ast.unparse(k.value) for k in n.keywords}
            if set(kw) - {'lexer', 'input', 'tracking'}:
                raise Shape('text_input: self.parser.parse called with keyword(s) %s' % sorted(set(kw) - {'lexer', 'input', 'tracking'}))
            if kw.get('lexer') == 'lexer' and kw.get('tracking') in ('1', 'True'):
                tracking = True
    if not fresh:
        raise Shape('text_input does not build a fresh lexer for every input (line counting starts at 1 per text)')
    if not tracking:
        raise Shape('text_input does not parse with tracking=1')


def extract(repo_dir):
    """-> dict(prods=[...], nonterminals=[...], sets..., mode) ; shared with the harness (PLY cross-check)"""
    path = os.path.join(repo_dir, 'bridgepoint', 'oal.py')
    with open(path, encoding='utf-8') as f:
        tree = ast.parse(f.read())
    cls = [n for n in tree.body if isinstance(n, ast.ClassDef) and n.name == 'OALParser']
    if len(cls) != 1:
        raise Shape('class OALParser not found')
    cls = cls[0]
    nodes = node_classes(tree)
    checked = sorted(nodes - NOT_CHECKED)
    mode = check_set_positional_info(tree)
    check_track_production(tree)
    check_text_input(cls)
    tokens = None
    keywords = None
    for st in cls.body:
        if isinstance(st, ast.Assign) and isinstance(st.targets[0], ast.Name):
            if st.targets[0].id == 'keywords':
                keywords = list(ast.literal_eval(st.value))
            elif st.targets[0].id == 'tokens':
                v = st.value
                if isinstance(v, ast.BinOp) and isinstance(v.left, ast.Name) and v.left.id == 'keywords':
                    tokens = list(keywords) + list(ast.literal_eval(v.right))
                else:
                    tokens = list(ast.literal_eval(v))
    if tokens is None:
        raise Shape('tokens not found')
    prods = []
    fns = sorted([n for n in cls.body if isinstance(n, ast.FunctionDef) and n.name.startswith('p_')
                  and n.name != 'p_error'], key=lambda n: n.lineno)
    for fn in fns:
        doc = ast.get_docstring(fn, clean=False)
        if doc is None:
            raise Shape('%s has no grammar docstring' % fn.name)
        decos = [ast.unparse(d) for d in fn.decorator_list]
        if [d for d in decos if d != 'track_production']:
            raise Shape('%s: unexpected decorator %s' % (fn.name, decos))
        res = result_of(fn, nodes)
        for lhs, syms in parse_doc(fn.name, doc):
            prods.append(dict(fn=fn.name, lhs=lhs, rhs=syms, tracked=('track_production' in decos), res=res))
    nts = []
    for p in prods:
        if p['lhs'] not in nts:
            nts.append(p['lhs'])
    for p in prods:
        for s in p['rhs']:
            if s not in nts and s not in tokens:
                raise Shape('%s: symbol %s is neither a token nor a nonterminal' % (p['fn'], s))
        if p['res'][0] == 'pass' and not (1 <= p['res'][1] <= len(p['rhs'])):
            raise Shape('%s: p[0] = p[%d] outside the production' % (p['fn'], p['res'][1]))
    ntset = set(nts)

    # nullable (least fixpoint)
    nullable = set()
    changed = True
    while changed:
        changed = False
        for p in prods:
            if p['lhs'] not in nullable and all(s in nullable for s in p['rhs']):
                nullable.add(p['lhs'])
                changed = True

    def greatest(ok):
        cur = set(nts)
        changed = True
        while changed:
            changed = False
            for p in prods:
                if p['lhs'] in cur and not ok(p, cur):
                    cur.discard(p['lhs'])
                    changed = True
        return cur
    start_solid = greatest(lambda p, cur: bool(p['rhs']) and (p['rhs'][0] not in ntset or p['rhs'][0] in cur))
    end_solid = greatest(lambda p, cur: bool(p['rhs']) and (p['rhs'][-1] not in ntset or p['rhs'][-1] in cur))
    end_ok = set(n for n in nts if all((not p['rhs']) or p['rhs'][-1] not in ntset or p['rhs'][-1] in end_solid
                                       for p in prods if p['lhs'] == n))
    # which nonterminals can carry a statement / expression node
    carriers = set()
    changed = True
    while changed:
        changed = False
        for p in prods:
            c = (p['res'][0] == 'node' and p['res'][1] in checked) or \
                (p['res'][0] == 'pass' and p['rhs'][p['res'][1] - 1] in carriers)
            p['carries'] = c
            if c and p['lhs'] not in carriers:
                carriers.add(p['lhs'])
                changed = True
    return dict(prods=prods, nts=nts, tokens=tokens, nullable=nullable, start_solid=start_solid,
                end_solid=end_solid, end_ok=end_ok, mode=mode, checked=checked)


def generate(repo_dir):
    g = extract(repo_dir)
    nts = g['nts']
    idx = {n: i for i, n in enumerate(nts)}

    def sym(s):
        return '.n %d' % idx[s] if s in idx else '.t'

    def res(r):
        if r[0] == 'node':
            return '.node "%s" %s' % (r[1], 'true' if r[1] in g['checked'] else 'false')
        if r[0] == 'pass':
            return '.pass %d' % r[1]
        return '.other'

    def ids(s):
        return '[' + ', '.join(str(idx[n]) for n in nts if n in s) + ']'
    out = []
    w = out.append
    w('import PyxModel.Oal.Track')
    w('')
    w('/-! GENERATED by translator/gen_oaltrack.py from bridgepoint/oal.py - do not edit.')
    w('    Every production of the OAL grammar (p_* docstrings, source order) with: is the function decorated with')
    w('    @track_production, what it puts into p[0], can that be a statement / expression node; the nonterminal')
    w('    sets computed from the grammar; how set_positional_info finds the end symbol. -/')
    w('namespace Gen.OalTrack')
    w('open Pyx.OalTrack')
    w('')
    w('def nonterminals : List String := [' + ', '.join('"%s"' % n for n in nts) + ']')
    w('')
    w('def prods : List Prod := [')
    lines = []
    for p in g['prods']:
        lines.append('  { fn := "%s", lhs := %d, lhsName := "%s", rhs := [%s], rhsNames := [%s],\n'
                     '    tracked := %s, res := %s, carries := %s }' % (
                         p['fn'], idx[p['lhs']], p['lhs'], ', '.join(sym(s) for s in p['rhs']),
                         ', '.join('"%s"' % s for s in p['rhs']), 'true' if p['tracked'] else 'false',
                         res(p['res']), 'true' if p['carries'] else 'false'))
    w(',\n'.join(lines))
    w(']')
    w('')
    w('def grammar : Grammar :=')
    w('  { prods := prods,')
    w('    nullable := %s,' % ids(g['nullable']))
    w('    startSolid := %s,' % ids(g['start_solid']))
    w('    endSolid := %s,' % ids(g['end_solid']))
    w('    endOk := %s,' % ids(g['end_ok']))
    w('    walkBack := %s }' % ('true' if g['mode'] == 'walkback' else 'false'))
    w('')
    w('/-- the node classes counted as statement / expression nodes -/')
    w('def checkedClasses : List String := [' + ', '.join('"%s"' % c for c in g['checked']) + ']')
    w('')
    w('end Gen.OalTrack')
    w('')
    return [('OalTrack.lean', '\n'.join(out))]


if __name__ == '__main__':
    import sys
    for name, text in generate(sys.argv[1] if len(sys.argv) > 1 else '/repo'):
        sys.stdout.write(text)
