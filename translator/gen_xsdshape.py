"""bridgepoint/gen_xsd_schema.py -> lean/Gen/XsdShape.lean:
Reads, with `ast` only, the STATEMENT STRUCTURE of the functions of the XSD generator and emits it, close to one to one, as a
small first-order IR (a statement list per function):

  get_type_name, get_refered_attribute, build_core_type, build_enum_type, build_struct_type, build_user_type, build_type,
  build_class, build_component, build_schema
      navigations `nav_*(<local>).<KL>[<rel>(, '<phrase>')]…(<filter>?)` with the xtuml function the alias REALLY names (the
      `from xtuml import navigate_any as nav_one` lines are read), `m.select_many('<KL>', <filter>)`, the lambdas, calls of
      the module's own functions and of `ooaofooa.is_global / is_contained_in` (arguments are locals), attribute reads
      `<local>.<attr>` (lower-cased: xtuml attribute access is case-insensitive), `== '<literal>'`, `in range(lo, hi)`, `and`,
      `not`, `is not None`, string / None constants, `ET.Element` / `ET.SubElement` with tag and keyword arguments IN ORDER
      (which expression lands in which XML attribute), `<elem>.append(...)`, `<elem>.set('<k>', '<v>')`, logger calls,
      if / elif / else, while, for, return.
  main, prettify
      only what selects arguments (`MainShape`): how the component is selected, what is handed to build_schema, the indent.

Every statement or expression outside this fragment raises (= broken tie), as does a module-level function that is not listed.
Props/C20.lean (`*_as_in_source`) proves that the hand-written model (PyxModel/Extract/Xsd.lean) equals a generic interpretation
(Proofs/XsdShape.lean) of this IR over class diagrams.
"""
import ast
import os

OUTPUTS = ['XsdShape.lean']

FUNCS = ['get_type_name', 'get_refered_attribute', 'build_core_type', 'build_enum_type', 'build_struct_type',
         'build_user_type', 'build_type', 'build_class', 'build_component', 'build_schema']
OTHER = ['prettify', 'main']
NAVFN = {'navigate_any': '.any', 'navigate_one': '.one', 'navigate_many': '.many'}
EXTERNAL = ['ooaofooa.is_global', 'ooaofooa.is_contained_in']


class Shape(ValueError):
    pass


def _s(s):
    out = []
    for ch in s:
        o = ord(ch)
        if ch == '"':
            out.append('\\"')
        elif ch == '\\':
            out.append('\\\\')
        elif ch == '\n':
            out.append('\\n')
        elif 32 <= o < 127:
            out.append(ch)
        else:
            out.append('\\u{%x}' % o)
    return '"' + ''.join(out) + '"'


def _slist(items):
    return '[' + ', '.join(_s(i) for i in items) + ']'


def _strip_doc(body):
    body = list(body)
    if body and isinstance(body[0], ast.Expr) and isinstance(getattr(body[0], 'value', None), ast.Constant) \
            and isinstance(body[0].value.value, str):
        body = body[1:]
    return body


class Fn(object):
    def __init__(self, name, aliases, et, params):
        self.where = name
        self.aliases = aliases      # local name -> NavKind
        self.et = et                # the name ElementTree is imported as
        self.locals = set(params)

    def fail(self, node, what='outside the translated fragment'):
        raise Shape('%s: %s: %s' % (self.where, what, ast.unparse(node) if isinstance(node, ast.AST) else node))

    def local(self, n):
        if isinstance(n, ast.Name) and n.id in self.locals:
            return n.id
        self.fail(n, 'expected a local variable')

    # ------------------------------------------------------------------- expressions
    def nav(self, n):
        """nav_x(<local>).<KL>[<rel>(, '<phrase>')]...(<filter>?) -> text or None"""
        if not (isinstance(n, ast.Call) and isinstance(n.func, ast.Subscript)):
            return None
        steps = []
        cur = n.func
        while isinstance(cur, ast.Subscript):
            if not isinstance(cur.value, ast.Attribute):
                return None
            sl = cur.slice
            if isinstance(sl, ast.Constant) and isinstance(sl.value, int) and not isinstance(sl.value, bool):
                rel, phrase = sl.value, ''
            elif isinstance(sl, ast.Tuple) and len(sl.elts) == 2 and all(isinstance(e, ast.Constant) for e in sl.elts) \
                    and isinstance(sl.elts[0].value, int) and isinstance(sl.elts[1].value, str):
                rel, phrase = sl.elts[0].value, sl.elts[1].value
            else:
                self.fail(n, 'navigation step')
            steps.append((cur.value.attr, rel, phrase))
            cur = cur.value.value
        if not (isinstance(cur, ast.Call) and isinstance(cur.func, ast.Name) and cur.func.id in self.aliases
                and len(cur.args) == 1 and not cur.keywords):
            return None
        if n.keywords or len(n.args) > 1:
            self.fail(n, 'navigation call')
        steps.reverse()
        flt = 'none' if not n.args else '(some %s)' % _s(self.local(n.args[0]))
        return '(.nav %s %s [%s] %s)' % (self.aliases[cur.func.id], _s(self.local(cur.args[0])),
                                         ', '.join('⟨%s, %d, %s⟩' % (_s(c), r, _s(p)) for c, r, p in steps), flt)

    def expr(self, n):
        if isinstance(n, ast.Name):
            return '(.var %s)' % _s(self.local(n))
        if isinstance(n, ast.Constant):
            if n.value is None:
                return '.none'
            if isinstance(n.value, str):
                return '(.str %s)' % _s(n.value)
            self.fail(n, 'constant')
        if isinstance(n, ast.Attribute) and isinstance(n.value, ast.Name):
            return '(.field %s %s)' % (_s(self.local(n.value)), _s(n.attr.lower()))
        if isinstance(n, ast.UnaryOp) and isinstance(n.op, ast.Not):
            return '(.not_ %s)' % self.expr(n.operand)
        if isinstance(n, ast.BoolOp) and isinstance(n.op, ast.And):
            parts = [self.expr(v) for v in n.values]
            out = parts[-1]
            for p in reversed(parts[:-1]):
                out = '(.and_ %s %s)' % (p, out)
            return out
        if isinstance(n, ast.Compare) and len(n.ops) == 1:
            op, rhs = n.ops[0], n.comparators[0]
            if isinstance(op, ast.IsNot) and isinstance(rhs, ast.Constant) and rhs.value is None:
                return '(.isNotNone %s)' % self.expr(n.left)
            if isinstance(op, ast.Eq) and isinstance(rhs, ast.Constant) and isinstance(rhs.value, str):
                return '(.eqStr %s %s)' % (self.expr(n.left), _s(rhs.value))
            if isinstance(op, ast.In) and isinstance(rhs, ast.Call) and isinstance(rhs.func, ast.Name) \
                    and rhs.func.id == 'range' and len(rhs.args) == 2 and not rhs.keywords \
                    and all(isinstance(a, ast.Constant) and isinstance(a.value, int) and a.value >= 0 for a in rhs.args):
                return '(.inRange %s %d %d)' % (self.expr(n.left), rhs.args[0].value, rhs.args[1].value)
            self.fail(n, 'comparison')
        if isinstance(n, ast.Call):
            t = self.nav(n)
            if t is not None:
                return t
            if n.keywords:
                self.fail(n, 'call with keyword arguments')
            fn = ast.unparse(n.func)
            if isinstance(n.func, ast.Attribute) and n.func.attr == 'select_many' and isinstance(n.func.value, ast.Name) \
                    and len(n.args) in (1, 2) and isinstance(n.args[0], ast.Constant) and isinstance(n.args[0].value, str):
                flt = 'none' if len(n.args) == 1 else '(some %s)' % _s(self.local(n.args[1]))
                return '(.selectMany %s %s %s)' % (_s(self.local(n.func.value)), _s(n.args[0].value), flt)
            if fn in FUNCS or fn in EXTERNAL:
                return '(.call %s %s)' % (_s(fn), _slist([self.local(a) for a in n.args]))
        self.fail(n, 'expression')

    def kwargs(self, call):
        out = []
        for k in call.keywords:
            if k.arg is None:
                self.fail(call, '**kwargs')
            out.append('(%s, %s)' % (_s(k.arg), self.expr(k.value)))
        return '[' + ', '.join(out) + ']'

    def et_call(self, n, which):
        return isinstance(n, ast.Call) and ast.unparse(n.func) == '%s.%s' % (self.et, which)

    # ------------------------------------------------------------------- statements
    def stmts(self, body):
        return [self.stmt(s) for s in body]

    def sub_element(self, dst, c):
        if len(c.args) != 2 or not isinstance(c.args[1], ast.Constant) or not isinstance(c.args[1].value, str):
            self.fail(c, 'SubElement arguments')
        return '.subElement %s %s %s %s' % ('none' if dst is None else '(some %s)' % _s(dst), _s(self.local(c.args[0])),
                                            _s(c.args[1].value), self.kwargs(c))

    def stmt(self, st):
        if isinstance(st, ast.Return):
            return '.ret %s' % ('.none' if st.value is None else self.expr(st.value))
        if isinstance(st, ast.Assign):
            if len(st.targets) != 1 or not isinstance(st.targets[0], ast.Name):
                self.fail(st, 'assignment target')
            dst, v = st.targets[0].id, st.value
            if isinstance(v, ast.Lambda):
                a = v.args
                if len(a.args) != 1 or a.vararg or a.kwarg or a.kwonlyargs or a.defaults or a.posonlyargs:
                    self.fail(st, 'lambda signature')
                p = a.args[0].arg
                if p in self.locals:
                    self.fail(st, 'lambda parameter shadows a local')
                self.locals.add(p)
                body = self.expr(v.body)
                self.locals.discard(p)
                out = '.lambda %s %s %s' % (_s(dst), _s(p), body)
            elif self.et_call(v, 'Element'):
                if len(v.args) != 1 or not isinstance(v.args[0], ast.Constant) or not isinstance(v.args[0].value, str):
                    self.fail(st, 'Element arguments')
                out = '.element %s %s %s' % (_s(dst), _s(v.args[0].value), self.kwargs(v))
            elif self.et_call(v, 'SubElement'):
                out = self.sub_element(dst, v)
            else:
                out = '.assign %s %s' % (_s(dst), self.expr(v))
            self.locals.add(dst)
            return out
        if isinstance(st, ast.Expr):
            c = st.value
            if self.et_call(c, 'SubElement'):
                return self.sub_element(None, c)
            if isinstance(c, ast.Call) and isinstance(c.func, ast.Attribute) and isinstance(c.func.value, ast.Name) \
                    and not c.keywords:
                obj, m = c.func.value.id, c.func.attr
                if obj == 'logger' and m in ('debug', 'info', 'warning', 'error'):
                    return '.log %s' % _s(m)
                if m == 'append' and len(c.args) == 1:
                    return '.append %s %s' % (_s(self.local(c.func.value)), self.expr(c.args[0]))
                if m == 'set' and len(c.args) == 2 and isinstance(c.args[0], ast.Constant) \
                        and isinstance(c.args[0].value, str):
                    return '.setAttr %s %s %s' % (_s(self.local(c.func.value)), _s(c.args[0].value), self.expr(c.args[1]))
            self.fail(st, 'expression statement')
        if isinstance(st, ast.If):
            return ('.ifThen %s' % self.expr(st.test), [self.stmts(st.body), self.stmts(st.orelse)])
        if isinstance(st, ast.While):
            if st.orelse:
                self.fail(st, 'while ... else')
            return ('.whileDo %s' % self.expr(st.test), [self.stmts(st.body)])
        if isinstance(st, ast.For):
            if st.orelse or not isinstance(st.target, ast.Name):
                self.fail(st, 'for loop')
            it = self.expr(st.iter)
            self.locals.add(st.target.id)
            return ('.forIn %s %s' % (_s(st.target.id), it), [self.stmts(st.body)])
        self.fail(st, 'statement outside the translated fragment')


def _render_block(items, ind):
    if not items:
        return '[]'
    pad = ' ' * (ind + 2)
    return '[\n' + ',\n'.join(pad + _render(i, ind + 2) for i in items) + ' ]'


def _render(item, ind):
    if isinstance(item, str):
        return item
    return '%s %s' % (item[0], ' '.join(_render_block(b, ind) for b in item[1]))


def _imports(tree):
    aliases, et, ooa = {}, None, False
    for n in tree.body:
        if isinstance(n, ast.ImportFrom) and n.module == 'xtuml':
            for a in n.names:
                if a.name in NAVFN:
                    aliases[a.asname or a.name] = NAVFN[a.name]
        if isinstance(n, ast.ImportFrom) and n.module == 'bridgepoint':
            for a in n.names:
                if a.name == 'ooaofooa' and a.asname in (None, 'ooaofooa'):
                    ooa = True
        if isinstance(n, ast.Import):
            for a in n.names:
                if a.name == 'xml.etree.ElementTree' and a.asname:
                    et = a.asname
    if not aliases or et is None or not ooa:
        raise Shape('imports: navigate_* aliases / ElementTree / ooaofooa not found')
    return aliases, et


def _main_shape(fns):
    """what main and prettify select: texts of the statements that matter, compared after ast.unparse"""
    def find(fn, pred, what):
        hits = [n for n in ast.walk(fn) if pred(n)]
        if len(hits) != 1:
            raise Shape('%s: %s not found exactly once' % (fn.name, what))
        return hits[0]
    main, pretty = fns['main'], fns['prettify']
    sel = find(main, lambda n: isinstance(n, ast.Assign) and ast.unparse(n.targets[0]) == 'c_c', 'c_c = …')
    v = sel.value
    if not (isinstance(v, ast.Call) and ast.unparse(v.func) in ('m.select_any', 'm.select_one') and len(v.args) == 2
            and isinstance(v.args[0], ast.Constant) and isinstance(v.args[1], ast.Lambda)
            and isinstance(v.args[1].body, ast.Compare) and len(v.args[1].body.ops) == 1
            and isinstance(v.args[1].body.ops[0], ast.Eq)):
        raise Shape('main: component selection: %s' % ast.unparse(sel))
    lam = v.args[1]
    p = lam.args.args[0].arg
    left, right = lam.body.left, lam.body.comparators[0]
    if not (isinstance(left, ast.Attribute) and isinstance(left.value, ast.Name) and left.value.id == p
            and ast.unparse(right) == 'opts.component'):
        raise Shape('main: component filter: %s' % ast.unparse(lam))
    load = find(main, lambda n: isinstance(n, ast.Assign) and ast.unparse(n.targets[0]) == 'm', 'm = …')
    if ast.unparse(load.value) != 'ooaofooa.load_metamodel(args)':
        raise Shape('main: %s' % ast.unparse(load))
    guard = find(main, lambda n: isinstance(n, ast.If) and ast.unparse(n.test) == 'c_c', 'if c_c:')
    body = [ast.unparse(s) for s in guard.body]
    if body[0] != 'schema = build_schema(m, c_c)' or len(body) != 2 or not isinstance(guard.body[1], ast.With):
        raise Shape('main: if c_c: %s' % body)
    w = [ast.unparse(s) for s in guard.body[1].body]
    if w != ["s = ET.tostring(schema, 'utf-8')", 's = prettify(s)', 'f.write(s)']:
        raise Shape('main: writing: %s' % w)
    exits = [ast.unparse(s) for s in guard.orelse if ast.unparse(s).startswith('sys.exit')]
    if exits != ['sys.exit(1)']:
        raise Shape('main: else branch: %s' % exits)
    pb = [ast.unparse(s) for s in _strip_doc(pretty.body)]
    if len(pb) != 2 or pb[0] != 'reparsed = xml.dom.minidom.parseString(xml_string)' \
            or not isinstance(pretty.body[-1], ast.Return):
        raise Shape('prettify: %s' % pb)
    r = pretty.body[-1].value
    if not (isinstance(r, ast.Call) and ast.unparse(r.func) == 'reparsed.toprettyxml' and not r.args
            and len(r.keywords) == 1 and r.keywords[0].arg == 'indent' and isinstance(r.keywords[0].value, ast.Constant)):
        raise Shape('prettify: %s' % pb[1])
    return {'selectFn': _s(ast.unparse(v.func)[2:]), 'selectClass': _s(v.args[0].value), 'selectField': _s(left.attr.lower()),
            'buildArgs': _slist(['m', 'c_c']), 'missingExit': '1', 'indent': _s(r.keywords[0].value.value)}


HEADER = '''/-
  GENERATED by translator/gen_xsdshape.py from bridgepoint/gen_xsd_schema.py — do not edit.
  The statement structure of the functions of the XSD generator, close to one to one, as a first-order IR.  Props/C20.lean
  (`*_as_in_source`) proves that the model (PyxModel/Extract/Xsd.lean) equals the generic interpretation
  (Proofs/XsdShape.lean) of this IR.
-/
namespace Pyx.Gen.XsdShape

/-- the xtuml function a `nav_*` alias of the module really names (`from xtuml import navigate_any as nav_one`) -/
inductive NavKind where
  | any | one | many
  deriving DecidableEq, Repr

/-- `.<cls>[<rel>]` / `.<cls>[<rel>, '<phrase>']` -/
structure Step where
  cls : String
  rel : Nat
  phrase : String
  deriving DecidableEq, Repr

inductive Expr where
  | var (x : String)                                        -- <x>
  | none                                                    -- None
  | str (s : String)                                        -- '<s>'
  | field (x f : String)                                    -- <x>.<f>      (f lower-cased)
  | nav (k : NavKind) (start : String) (steps : List Step) (filter : Option String)   -- nav_k(<start>).<steps…>(<filter>?)
  | selectMany (m cls : String) (filter : Option String)    -- <m>.select_many('<cls>', <filter>?)
  | call (fn : String) (args : List String)                 -- <fn>(<args…>)   (own functions, ooaofooa.is_*)
  | inRange (e : Expr) (lo hi : Nat)                        -- <e> in range(lo, hi)
  | eqStr (e : Expr) (s : String)                           -- <e> == '<s>'
  | and_ (a b : Expr)                                       -- <a> and <b>
  | not_ (a : Expr)                                         -- not <a>
  | isNotNone (e : Expr)                                    -- <e> is not None
  deriving Repr

inductive Stmt where
  | assign (dst : String) (e : Expr)                        -- <dst> = <e>
  | lambda (dst param : String) (body : Expr)               -- <dst> = lambda <param>: <body>
  | element (dst tag : String) (attrs : List (String × Expr))                             -- <dst> = ET.Element('<tag>', k=v…)
  | subElement (dst : Option String) (parent tag : String) (attrs : List (String × Expr)) -- [<dst> =] ET.SubElement(<parent>, '<tag>', k=v…)
  | append (parent : String) (e : Expr)                     -- <parent>.append(<e>)
  | setAttr (x key : String) (e : Expr)                     -- <x>.set('<key>', <e>)
  | log (level : String)                                    -- logger.<level>(…)
  | ifThen (c : Expr) (thn els : List Stmt)                 -- if <c>: … else: …       (elif = an if in the else)
  | whileDo (c : Expr) (body : List Stmt)                   -- while <c>: …
  | forIn (v : String) (e : Expr) (body : List Stmt)        -- for <v> in <e>: …
  | ret (e : Expr)                                          -- return <e>

structure Fn where
  name : String
  params : List String
  body : List Stmt

/-- what `main` / `prettify` select -/
structure MainShape where
  selectFn : String         -- m.<selectFn>('<selectClass>', lambda inst: inst.<selectField> == opts.component)
  selectClass : String
  selectField : String
  buildArgs : List String   -- build_schema(<buildArgs…>)
  missingExit : Nat         -- no such component: sys.exit(<missingExit>)
  indent : String           -- toprettyxml(indent=<indent>)
  deriving DecidableEq, Repr

'''


def generate(repo_dir):
    tree = ast.parse(open(os.path.join(repo_dir, 'bridgepoint', 'gen_xsd_schema.py'), encoding='utf-8').read())
    aliases, et = _imports(tree)
    fns = {}
    for n in tree.body:
        if isinstance(n, (ast.FunctionDef, ast.AsyncFunctionDef, ast.ClassDef)):
            if not isinstance(n, ast.FunctionDef) or n.name not in FUNCS + OTHER or n.name in fns:
                raise Shape('module-level definition outside the translated set: %s' % n.name)
            fns[n.name] = n
    out = [HEADER]
    for name in FUNCS:
        if name not in fns:
            raise Shape('%s not found' % name)
        f = fns[name]
        a = f.args
        if a.vararg or a.kwarg or a.kwonlyargs or a.defaults or a.posonlyargs or f.decorator_list:
            raise Shape('%s: unexpected signature' % name)
        params = [x.arg for x in a.args]
        h = Fn(name, aliases, et, params)
        items = h.stmts(_strip_doc(f.body))
        out.append('/-- `%s(%s)` -/' % (name, ', '.join(params)))
        out.append('def %s : Fn :=\n  { name := %s, params := %s, body :=\n    %s }\n'
                   % (name, _s(name), _slist(params), _render_block(items, 4)))
    for name in OTHER:
        if name not in fns:
            raise Shape('%s not found' % name)
    out.append('def functions : List Fn :=\n  [' + ', '.join(FUNCS) + ']\n')
    ms = _main_shape(fns)
    out.append('def mainShape : MainShape :=\n  { ' + ',\n    '.join('%s := %s' % (k, ms[k]) for k in
               ['selectFn', 'selectClass', 'selectField', 'buildArgs', 'missingExit', 'indent']) + ' }\n')
    out.append('end Pyx.Gen.XsdShape\n')
    return [('XsdShape.lean', '\n'.join(out))]


if __name__ == '__main__':
    import sys
    for name, text in generate(sys.argv[1] if len(sys.argv) > 1 else '/repo'):
        sys.stdout.write(text)
