"""bridgepoint/sourcegen.py -> lean/Gen/SgShape.lean:
Reads, with `ast` only, the STATEMENT STRUCTURE of every handler `ActionTextGenWalker.accept_*` (and default_accept) of
the OAL text generator and emits it, close to one to one, as a small first-order IR (a statement list per handler):

  self.accept(<nav>)                        which instance is accepted when: `one(inst).V_VAL[609]()`, `subtype(inst, 603)`,
                                            a chain of hops `.<KL>[<number>(, '<phrase>')]`, an optional filter closure, a local
  <v> = <nav>                               locals bound to instances (`o_obj = one(inst).O_OBJ[671]()`)
  self.buf(<piece>, …) / buf_linebreak(…)   the text pieces written and their order: string literals, `<v>.<attr>`,
                                            `<v>.<attr>.lower()`, `str(<v>.<attr>)`, `'<format>' % <v>.<attr>`
  if <cond>: … else: …                      `inst.relationship_phrase`, `not v_var`, `one(inst)…()`, `… is not None`, `self._lvl`
  <f> = lambda sel: (not … and not …)       the filter closures (first statement of a block, first parameter)
  <k> = lambda inst: (…, …)                 the sort key of the elif clauses
  while <v>: …                              the successor loop of accept_ACT_BLK
  for <v> in sorted(many(…), key=<k>): …    the elif loop of accept_ACT_IF
  self._lvl += 1 / -= 1                     indentation level (layout only)

The helpers `__init__`, `__str__`, `buf`, `buf_linebreak` and `gen_text_action` must have exactly the recognised text (the
buffer is appended to in argument order, a line break writes its arguments first; the walker starts at level -1 and its
string is the buffer).  Every statement or expression outside the translated fragment raises (= broken tie).
Props/C05.lean proves that the clauses of the token-level printer over the flat population (PyxModel/Prebuild/Flat.lean:
regenVar / regenVal / regenSmt / regenChain / regenBlk / regenElifs / regenFlat) equal a generic interpretation
(Proofs/SgShape.lean) of this IR, so printing the right operand before the left, swapping the `to` and the `using` variable,
dropping a parenthesis, another keyword, another association number or another successor direction changes the IR and
breaks an equality theorem before any test runs.
"""
import ast
import os

OUTPUTS = ['SgShape.lean']

NAVS = {'one': '.one', 'any': '.any', 'many': '.many'}


class Shape(ValueError):
    pass


def _s(s):
    out = []
    for ch in s:
        o = ord(ch)
        if ch == '"':
            out.append('\\"')
        elif ch == '\\':
            out.append('\\\\')
        elif ch == '\n':
            out.append('\\n')
        elif 32 <= o < 127:
            out.append(ch)
        else:
            out.append('\\u{%x}' % o)
    return '"' + ''.join(out) + '"'


def _strip_doc(body):
    body = list(body)
    if body and isinstance(body[0], ast.Expr) and isinstance(getattr(body[0], 'value', None), ast.Constant) \
            and isinstance(body[0].value.value, str):
        body = body[1:]
    return body


class Handler(object):
    """translates the body of one accept_* method; `self.locals` = names bound so far"""

    def __init__(self, where):
        self.where = where
        self.locals = {'inst'}
        self.closures = set()

    def fail(self, node, what='outside the translated fragment'):
        raise Shape('%s: %s: %s' % (self.where, what, ast.unparse(node) if isinstance(node, ast.AST) else node))

    def local(self, n, extra=()):
        if isinstance(n, ast.Name) and (n.id in self.locals or n.id in extra):
            return n.id
        self.fail(n, 'expected a local variable')

    # ----------------------------------------------------------------------- navigation
    def hop(self, sub):
        """.<KL>[<number>] | .<KL>[<number>, '<phrase>']"""
        if not (isinstance(sub, ast.Subscript) and isinstance(sub.value, ast.Attribute)):
            self.fail(sub, 'expected .<class>[<association>]')
        cls = sub.value.attr
        sl = sub.slice
        if isinstance(sl, ast.Constant) and type(sl.value) is int:
            rel, phrase = sl.value, ''
        elif isinstance(sl, ast.Tuple) and len(sl.elts) == 2 and all(isinstance(e, ast.Constant) for e in sl.elts) \
                and type(sl.elts[0].value) is int and type(sl.elts[1].value) is str:
            rel, phrase = sl.elts[0].value, sl.elts[1].value
        else:
            self.fail(sub, 'association subscript')
        if rel < 0:
            self.fail(sub, 'association number')
        return sub.value.value, '⟨%s, %d, %s⟩' % (_s(cls), rel, _s(phrase))

    def nav(self, n, extra=()):
        """one(<v>).<hops>(<filter>?) | any(…) | many(…) | subtype(<v>, <number>) | <v>"""
        if isinstance(n, ast.Name):
            return '(.loc %s)' % _s(self.local(n, extra))
        if not isinstance(n, ast.Call) or n.keywords:
            self.fail(n, 'expected a navigation')
        if isinstance(n.func, ast.Name) and n.func.id == 'subtype':
            if len(n.args) != 2 or not isinstance(n.args[1], ast.Constant) or type(n.args[1].value) is not int:
                self.fail(n, 'subtype(<v>, <number>)')
            return '(.subtype %s %d)' % (_s(self.local(n.args[0], extra)), n.args[1].value)
        if len(n.args) > 1:
            self.fail(n, 'navigation call')
        flt = 'none'
        if n.args:
            if not (isinstance(n.args[0], ast.Name) and n.args[0].id in self.closures):
                self.fail(n, 'navigation filter must be a closure defined in the handler')
            flt = '(some %s)' % _s(n.args[0].id)
        hops = []
        cur = n.func
        while isinstance(cur, ast.Subscript):
            cur, h = self.hop(cur)
            hops.append(h)
        hops.reverse()
        if not hops:
            self.fail(n, 'navigation without a hop')
        if not (isinstance(cur, ast.Call) and isinstance(cur.func, ast.Name) and cur.func.id in NAVS and len(cur.args) == 1
                and not cur.keywords):
            self.fail(n, 'expected one(<v>) / any(<v>) / many(<v>)')
        return '(%s %s [%s] %s)' % (NAVS[cur.func.id], _s(self.local(cur.args[0], extra)), ', '.join(hops), flt)

    def attr(self, n, extra=()):
        """<v>.<attr>"""
        if isinstance(n, ast.Attribute) and isinstance(n.value, ast.Name):
            return _s(self.local(n.value, extra)), _s(n.attr)
        return None

    def cond(self, t, extra=()):
        if isinstance(t, ast.UnaryOp) and isinstance(t.op, ast.Not):
            return '(.navNot %s)' % self.nav(t.operand, extra)
        if isinstance(t, ast.Compare) and len(t.ops) == 1 and isinstance(t.comparators[0], ast.Constant) \
                and t.comparators[0].value is None:
            if isinstance(t.ops[0], ast.Is):
                return '(.navIsNone %s)' % self.nav(t.left, extra)
            if isinstance(t.ops[0], ast.IsNot):
                return '(.navIsNotNone %s)' % self.nav(t.left, extra)
            self.fail(t, 'comparison')
        if ast.unparse(t) == 'self._lvl':
            return '.lvl'
        a = self.attr(t, extra)
        if a is not None:
            return '(.attr %s %s)' % a
        return '(.nav %s)' % self.nav(t, extra)

    # ----------------------------------------------------------------------- text pieces
    def piece(self, n):
        if isinstance(n, ast.Constant) and isinstance(n.value, str):
            return '.lit %s' % _s(n.value)
        a = self.attr(n)
        if a is not None:
            return '.attr %s %s' % a
        if isinstance(n, ast.Call) and not n.keywords:
            if isinstance(n.func, ast.Attribute) and n.func.attr == 'lower' and not n.args and self.attr(n.func.value):
                return '.attrLower %s %s' % self.attr(n.func.value)
            if isinstance(n.func, ast.Name) and n.func.id == 'str' and len(n.args) == 1 and self.attr(n.args[0]):
                return '.attrStr %s %s' % self.attr(n.args[0])
        if isinstance(n, ast.BinOp) and isinstance(n.op, ast.Mod) and isinstance(n.left, ast.Constant) \
                and isinstance(n.left.value, str) and n.left.value.count('%') == 1 and n.left.value.count('%s') == 1 \
                and self.attr(n.right):
            return '.fmt %s %s %s' % ((_s(n.left.value),) + self.attr(n.right))
        self.fail(n, 'text piece')

    def pieces(self, args):
        return '[' + ', '.join(self.piece(a) for a in args) + ']'

    # ----------------------------------------------------------------------- statements
    def stmts(self, body):
        return [self.stmt(s) for s in body]

    def self_call(self, n):
        """self.<m>(<args>) -> (m, args)"""
        if isinstance(n, ast.Call) and not n.keywords and isinstance(n.func, ast.Attribute) \
                and isinstance(n.func.value, ast.Name) and n.func.value.id == 'self':
            if any(isinstance(a, ast.Starred) for a in n.args):
                self.fail(n, 'starred argument')
            return n.func.attr, n.args
        return None

    def closure(self, name, lam):
        a = lam.args
        if a.vararg or a.kwarg or a.kwonlyargs or a.defaults or len(a.args) != 1 or a.posonlyargs:
            self.fail(lam, 'closure signature')
        p = a.args[0].arg
        b = lam.body
        if isinstance(b, ast.Tuple):
            items = []
            for e in b.elts:
                if not (isinstance(e, ast.Attribute) and isinstance(e.value, ast.Call)):
                    self.fail(e, 'sort key item')
                items.append('(%s, %s)' % (self.nav(e.value, (p,)), _s(e.attr)))
            self.closures.add(name)
            return '.defKey %s %s [%s]' % (_s(name), _s(p), ', '.join(items))
        if isinstance(b, ast.BoolOp) and isinstance(b.op, ast.And):
            conj = [self.cond(v, (p,)) for v in b.values]
        elif isinstance(b, ast.BoolOp):
            self.fail(lam, 'filter closure: only a conjunction is translated')
        else:
            conj = [self.cond(b, (p,))]
        self.closures.add(name)
        return '.defFilter %s %s [%s]' % (_s(name), _s(p), ', '.join(conj))

    def stmt(self, st):
        if isinstance(st, ast.Expr):
            c = self.self_call(st.value)
            if c is not None:
                m, args = c
                if m == 'buf':
                    if not args:
                        self.fail(st, 'buf without a value')
                    return '.buf %s' % self.pieces(args)
                if m == 'buf_linebreak':
                    return '.bufLinebreak %s' % self.pieces(args)
                if m == 'accept' and len(args) == 1:
                    return '.accept %s' % self.nav(args[0])
            if ast.unparse(st) == 'print(inst.__class__.__name__)':
                return '.printClassName'
            self.fail(st)
        if isinstance(st, ast.Assign):
            if len(st.targets) != 1 or not isinstance(st.targets[0], ast.Name):
                self.fail(st, 'assignment target')
            t = st.targets[0].id
            if t in ('inst', 'self', 'one', 'any', 'many', 'subtype', 'sorted', 'str'):
                self.fail(st, 'assignment target')
            if isinstance(st.value, ast.Lambda):
                if t in self.locals or t in self.closures:
                    self.fail(st, 'closure name bound twice')
                return self.closure(t, st.value)
            if t in self.closures:
                self.fail(st, 'closure name rebound')
            c = '.assign %s %s' % (_s(t), self.nav(st.value))
            self.locals.add(t)
            return c
        if isinstance(st, ast.AugAssign):
            if ast.unparse(st.target) == 'self._lvl' and isinstance(st.value, ast.Constant) and st.value.value == 1 \
                    and type(st.value.value) is int and isinstance(st.op, (ast.Add, ast.Sub)):
                return '.lvlAdd (%s)' % ('1' if isinstance(st.op, ast.Add) else '-1')
            self.fail(st)
        if isinstance(st, ast.If):
            c = self.cond(st.test)
            head = '.ite %s' % c
            before = set(self.locals)
            thn = self.stmts(st.body)
            if c == '.lvl' and (thn != ['.bufLinebreak []'] or st.orelse):
                # the level is layout: the generic interpreter gives it no tokens
                self.fail(st, 'only a bare line break may depend on self._lvl')
            l1 = self.locals
            self.locals = set(before)
            els = self.stmts(st.orelse)
            self.locals = l1 & self.locals        # bound on both paths
            return (head, [thn, els])
        if isinstance(st, ast.While):
            if st.orelse:
                self.fail(st, 'while ... else')
            v = self.local(st.test)
            before = set(self.locals)
            body = self.stmts(st.body)
            # a local bound by the loop is not read after it (the generic interpreter hands the rounds after the first to
            # an oracle): only names bound before the loop stay visible, and the loop variable itself is dropped
            self.locals = before - {v}
            return ('.whileLoc %s' % _s(v), [body])
        if isinstance(st, ast.For):
            it = st.iter
            if st.orelse or not isinstance(st.target, ast.Name):
                self.fail(st, 'for loop')
            if not (isinstance(it, ast.Call) and isinstance(it.func, ast.Name) and it.func.id == 'sorted' and len(it.args) == 1
                    and len(it.keywords) == 1 and it.keywords[0].arg == 'key' and isinstance(it.keywords[0].value, ast.Name)
                    and it.keywords[0].value.id in self.closures):
                self.fail(st, 'for loop over')
            var = st.target.id
            n = self.nav(it.args[0])
            if not n.startswith('(.many '):
                self.fail(st, 'for loop over something that is not many(...)')
            before = set(self.locals)
            self.locals.add(var)
            body = self.stmts(st.body)
            self.locals = before
            return ('.forSorted %s %s %s' % (_s(var), n, _s(it.keywords[0].value.id)), [body])
        self.fail(st, 'statement outside the translated fragment')


def _render_block(items, ind):
    if not items:
        return '[]'
    pad = ' ' * (ind + 2)
    return '[\n' + ',\n'.join(pad + _render(i, ind + 2) for i in items) + ' ]'


def _render(item, ind):
    if isinstance(item, str):
        return item
    return '%s %s' % (item[0], ' '.join(_render_block(b, ind) for b in item[1]))


EXPECTED_HELPERS = {
    '__init__': (['self', 'level'], ['-1'], ['Walker.__init__(self)', "self._buf = ''", 'self._lvl = level']),
    '__str__': (['self'], [], ['return self._buf']),
    '__repr__': (['self'], [], ['return self._buf']),
    'buf': (['self', 'value', '*args'], [], ['self._buf += value', "self._buf += ''.join(args)"]),
    'buf_linebreak': (['self', '*args'], [], ["self._buf += ''.join(args)", "self._buf += '\\n'",
                                                  "self._buf += '    ' * self._lvl"]),
}

EXPECTED_ENTRY = ['w = ActionTextGenWalker(-1)', 'w.accept(instance)', 'return str(w)']


def _check_helpers(cls, tree):
    seen = {}
    for f in cls.body:
        if isinstance(f, ast.FunctionDef) and f.name in EXPECTED_HELPERS:
            a = f.args
            params = [x.arg for x in a.args] + (['*' + a.vararg.arg] if a.vararg else [])
            got = (params, [ast.unparse(d) for d in a.defaults], [ast.unparse(s) for s in _strip_doc(f.body)])
            if a.kwarg or a.kwonlyargs or f.decorator_list or got != EXPECTED_HELPERS[f.name]:
                raise Shape('ActionTextGenWalker.%s: unexpected text: %s' % (f.name, got))
            seen[f.name] = True
    for k in EXPECTED_HELPERS:
        if k not in seen:
            raise Shape('ActionTextGenWalker.%s not found' % k)
    if [ast.unparse(b) for b in cls.bases] != ['Walker']:
        raise Shape('ActionTextGenWalker: bases')
    for n in tree.body:
        if isinstance(n, ast.FunctionDef) and n.name == 'gen_text_action':
            if [x.arg for x in n.args.args] != ['instance'] or [ast.unparse(s) for s in _strip_doc(n.body)] != EXPECTED_ENTRY:
                raise Shape('gen_text_action: unexpected text')
            return
    raise Shape('gen_text_action not found')


def _check_imports(tree):
    want = {'one': 'navigate_one', 'any': 'navigate_any', 'many': 'navigate_many', 'subtype': 'navigate_subtype'}
    got = {}
    for n in tree.body:
        if isinstance(n, ast.ImportFrom) and n.module == 'xtuml':
            for a in n.names:
                got[a.asname or a.name] = a.name
        elif isinstance(n, ast.FunctionDef) and n.name in want:
            raise Shape('a navigation name is rebound at module level')
        elif isinstance(n, ast.Assign) and any(isinstance(t, ast.Name) and t.id in want for t in n.targets):
            raise Shape('a navigation name is rebound at module level')
    for k, v in want.items():
        if got.get(k) != v:
            raise Shape('`%s` is not xtuml.%s' % (k, v))


HEADER = '''/-
  GENERATED by translator/gen_sgshape.py from bridgepoint/sourcegen.py — do not edit.
  The statement structure of the handlers `ActionTextGenWalker.accept_*` of the OAL text generator, close to one to one, as a
  first-order IR.  Props/C05.lean proves that the token-level printer over the flat population
  (PyxModel/Prebuild/Flat.lean) equals the generic interpretation (Proofs/SgShape.lean) of this IR.
-/
namespace Pyx.Gen.SgShape

/-- one step of a navigation: `.<cls>[<rel>]` or `.<cls>[<rel>, '<phrase>']` (`phrase = ""`: none given) -/
structure Hop where
  cls : String
  rel : Nat
  phrase : String
  deriving DecidableEq, Repr

/-- an expression that denotes an instance (or None, or a set of instances) -/
inductive Nav where
  | one (src : String) (hops : List Hop) (filter : Option String)    -- one(<src>).<hops…>(<filter>)
  | any (src : String) (hops : List Hop) (filter : Option String)    -- any(<src>).<hops…>(<filter>)
  | many (src : String) (hops : List Hop) (filter : Option String)   -- many(<src>).<hops…>(<filter>)
  | subtype (src : String) (rel : Nat)                               -- subtype(<src>, <rel>)
  | loc (v : String)                                                 -- <v>
  deriving DecidableEq, Repr

/-- one argument of `self.buf(…)` / `self.buf_linebreak(…)` -/
inductive Piece where
  | lit (s : String)                 -- '<s>'
  | attr (v a : String)              -- <v>.<a>
  | attrLower (v a : String)         -- <v>.<a>.lower()
  | attrStr (v a : String)           -- str(<v>.<a>)
  | fmt (f : String) (v a : String)  -- '<f>' % <v>.<a>      (one %s)
  deriving DecidableEq, Repr

/-- a condition (of an `if`, or one conjunct of a filter closure) -/
inductive Cond where
  | nav (n : Nav)               -- <n>                 an instance was found
  | navNot (n : Nav)            -- not <n>
  | navIsNone (n : Nav)         -- <n> is None
  | navIsNotNone (n : Nav)      -- <n> is not None
  | attr (v a : String)         -- <v>.<a>             a non-empty string
  | lvl                         -- self._lvl
  deriving DecidableEq, Repr

inductive Stm where
  | buf (ps : List Piece)                                          -- self.buf(<ps…>)
  | bufLinebreak (ps : List Piece)                                 -- self.buf_linebreak(<ps…>)
  | accept (n : Nav)                                               -- self.accept(<n>)
  | assign (v : String) (n : Nav)                                  -- <v> = <n>
  | defFilter (name param : String) (conj : List Cond)             -- <name> = lambda <param>: (<c1> and <c2> …)
  | defKey (name param : String) (key : List (Nav × String))       -- <name> = lambda <param>: (<nav>.<attr>, …)
  | lvlAdd (d : Int)                                               -- self._lvl += 1 / -= 1
  | printClassName                                                 -- print(inst.__class__.__name__)
  | ite (c : Cond) (thn els : List Stm)                            -- if <c>: … else: …
  | whileLoc (v : String) (body : List Stm)                        -- while <v>: …
  | forSorted (v : String) (n : Nav) (key : String) (body : List Stm)   -- for <v> in sorted(<n>, key=<key>): …

/-- `ActionTextGenWalker(-1)`: the level the walker of gen_text_action starts at; `buf` appends its arguments in order,
    `buf_linebreak` its arguments, a line break and the indentation; `str(w)` is the buffer -/
def initialLevel : Int := -1

'''


def generate(repo_dir):
    tree = ast.parse(open(os.path.join(repo_dir, 'bridgepoint', 'sourcegen.py'), encoding='utf-8').read())
    _check_imports(tree)
    cls = None
    for n in tree.body:
        if isinstance(n, ast.ClassDef) and n.name == 'ActionTextGenWalker':
            if cls is not None:
                raise Shape('ActionTextGenWalker defined twice')
            cls = n
    if cls is None:
        raise Shape('ActionTextGenWalker not found')
    _check_helpers(cls, tree)
    out = [HEADER]
    names = []
    for f in cls.body:
        if isinstance(f, ast.Expr) and isinstance(f.value, ast.Constant):
            continue
        if not isinstance(f, ast.FunctionDef):
            raise Shape('ActionTextGenWalker: member that is not a method: %s' % ast.unparse(f).split('\n')[0])
        if f.name in EXPECTED_HELPERS:
            continue
        if not (f.name.startswith('accept_') or f.name == 'default_accept'):
            raise Shape('ActionTextGenWalker: method outside the translated fragment: %s' % f.name)
        if f.name in names:
            raise Shape('%s defined twice' % f.name)
        a = f.args
        if [x.arg for x in a.args] != ['self', 'inst'] or a.vararg or a.kwarg or a.kwonlyargs or a.defaults \
                or f.decorator_list:
            raise Shape('%s: unexpected signature' % f.name)
        h = Handler(f.name)
        items = h.stmts(_strip_doc(f.body))
        names.append(f.name)
        out.append('/-- `ActionTextGenWalker.%s(self, inst)` -/' % f.name)
        out.append('def %s : List Stm :=\n  %s\n' % (f.name, _render_block(items, 2)))
    if 'default_accept' not in names:
        raise Shape('default_accept not found')
    out.append('/-- `getattr(self, \'accept_\' + <class name>, self.default_accept)`: the handlers by the name of their method -/')
    out.append('def handlers : List (String × List Stm) :=\n  [' +
               ',\n   '.join('(%s, %s)' % (_s(n), n) for n in names if n != 'default_accept') + ']\n')
    out.append('end Pyx.Gen.SgShape\n')
    return [('SgShape.lean', '\n'.join(out))]


if __name__ == '__main__':
    import sys
    for name, text in generate(sys.argv[1] if len(sys.argv) > 1 else '/repo'):
        sys.stdout.write(text)
