"""Gen/InterpOps.lean: the operator tables of the OAL interpreter, read from the SOURCE TEXT of
bridgepoint/interpret.py with `ast` (the module is not imported).

  * the two dict literals `ops = {...}` in ActionWalker.accept_BinaryOperationNode / accept_UnaryOperationNode:
    lexeme -> (lambda parameter names, `ast.unparse` of the lambda body), or the name of the function used;
  * how the key is normalised (`operator = node.operator.lower()`), how the operands are obtained and in which
    order they are passed (`ops[operator](left_value, right_value)`);
  * the shape of the module-level helper `divide` (parameters and `ast.unparse` of every statement).

If the source does not have this shape an exception is raised (the runner reports a broken tie).
The output is deterministic: identical source text gives byte-identical Lean text.
"""
import ast
import os

OUTPUTS = ['InterpOps.lean']


def _lean_str(s):
    out = []
    for ch in s:
        o = ord(ch)
        if ch == '"':
            out.append('\\"')
        elif ch == '\\':
            out.append('\\\\')
        elif ch == '\n':
            out.append('\\n')
        elif 32 <= o < 127:
            out.append(ch)
        else:
            out.append('\\u{%x}' % o)
    return '"' + ''.join(out) + '"'


def _lean_list(items):
    return '[' + ', '.join(items) + ']'


def _find_method(tree, cls_name, meth_name):
    for node in tree.body:
        if isinstance(node, ast.ClassDef) and node.name == cls_name:
            for m in node.body:
                if isinstance(m, ast.FunctionDef) and m.name == meth_name:
                    return m
    raise ValueError('%s.%s not found' % (cls_name, meth_name))


def _ops_table(meth):
    """the dict literal assigned to `ops`, the key normalisation, operand evaluation and the application"""
    table = None
    keynorm = None
    apply_ = None
    operands = []
    for st in meth.body:
        if isinstance(st, ast.Assign) and len(st.targets) == 1 and isinstance(st.targets[0], ast.Name):
            name = st.targets[0].id
            if name == 'ops':
                if not isinstance(st.value, ast.Dict):
                    raise ValueError('%s: ops is not a dict literal' % meth.name)
                table = st.value
            elif name == 'operator':
                keynorm = ast.unparse(st.value)
            elif name == 'value' and isinstance(st.value, ast.Call) and isinstance(st.value.func, ast.Subscript):
                apply_ = ast.unparse(st.value)
            elif isinstance(st.value, ast.Call) and ast.unparse(st.value).startswith('self.accept('):
                operands.append('%s = %s' % (name, ast.unparse(st.value)))
    if table is None or keynorm is None or apply_ is None:
        raise ValueError('%s: expected `ops = {...}`, `operator = ...` and `value = ops[operator](...)`' % meth.name)
    entries = []
    for k, v in zip(table.keys, table.values):
        if not (isinstance(k, ast.Constant) and isinstance(k.value, str)):
            raise ValueError('%s: non-literal key in ops' % meth.name)
        if isinstance(v, ast.Lambda):
            if v.args.vararg or v.args.kwarg or v.args.kwonlyargs or v.args.defaults:
                raise ValueError('%s: unexpected lambda signature for %r' % (meth.name, k.value))
            params = [a.arg for a in v.args.args]
            body = ast.unparse(v.body)
        elif isinstance(v, ast.Name):
            params = []
            body = 'function ' + v.id
        else:
            raise ValueError('%s: entry %r is neither a lambda nor a function name' % (meth.name, k.value))
        entries.append((k.value, params, body))
    return entries, keynorm, apply_, operands


def _function_shape(tree, name):
    for node in tree.body:
        if isinstance(node, ast.FunctionDef) and node.name == name:
            params = [a.arg for a in node.args.args]
            stmts = []
            for st in node.body:
                if isinstance(st, ast.Expr) and isinstance(st.value, ast.Constant) and isinstance(st.value.value, str):
                    continue        # docstring
                stmts.append(ast.unparse(st))
            return params, stmts
    raise ValueError('module-level function %s not found' % name)


def generate(repo_dir):
    path = os.path.join(repo_dir, 'bridgepoint', 'interpret.py')
    with open(path, 'r', encoding='utf-8') as f:
        src = f.read()
    tree = ast.parse(src)
    bmeth = _find_method(tree, 'ActionWalker', 'accept_BinaryOperationNode')
    umeth = _find_method(tree, 'ActionWalker', 'accept_UnaryOperationNode')
    bent, bkey, bapp, bops = _ops_table(bmeth)
    uent, ukey, uapp, uops = _ops_table(umeth)
    helpers = sorted({body[len('function '):] for _, _, body in bent + uent if body.startswith('function ')})
    shapes = [(h,) + _function_shape(tree, h) for h in helpers]

    def entry(e):
        lex, params, body = e
        return '⟨%s, %s, %s⟩' % (_lean_str(lex), _lean_list([_lean_str(p) for p in params]), _lean_str(body))

    lines = [
        '/- GENERATED by translator/gen_interpops.py from bridgepoint/interpret.py — do not edit.',
        '   The operator tables of ActionWalker.accept_BinaryOperationNode / accept_UnaryOperationNode. -/',
        'namespace Pyx.Gen.InterpOps',
        '',
        'structure Entry where',
        '  lexeme : String',
        '  params : List String',
        '  body : String',
        '  deriving DecidableEq, Repr',
        '',
        'def binary : List Entry := [',
        ',\n'.join('  ' + entry(e) for e in bent),
        ']',
        '',
        'def unary : List Entry := [',
        ',\n'.join('  ' + entry(e) for e in uent),
        ']',
        '',
        'def binaryKey : String := %s' % _lean_str(bkey),
        'def unaryKey : String := %s' % _lean_str(ukey),
        'def binaryApply : String := %s' % _lean_str(bapp),
        'def unaryApply : String := %s' % _lean_str(uapp),
        'def binaryOperands : List String := %s' % _lean_list([_lean_str(x) for x in bops]),
        'def unaryOperands : List String := %s' % _lean_list([_lean_str(x) for x in uops]),
        '',
        '/-- module-level helper functions named in the tables: (name, parameters, statements) -/',
        'def helpers : List (String × List String × List String) := [',
        ',\n'.join('  (%s, %s, %s)' % (_lean_str(n), _lean_list([_lean_str(p) for p in ps]),
                                       _lean_list([_lean_str(s) for s in ss])) for n, ps, ss in shapes),
        ']',
        '',
        'end Pyx.Gen.InterpOps',
        '',
    ]
    return [('InterpOps.lean', '\n'.join(lines))]


if __name__ == '__main__':
    import sys
    for name, text in generate(sys.argv[1] if len(sys.argv) > 1 else '/repo'):
        sys.stdout.write(text)
