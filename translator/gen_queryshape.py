"""xtuml/meta.py -> lean/Gen/QueryShape.lean:
Reads, with `ast` only, the statement structure of the query side of the metamodel and emits it as a small
first-order IR whose loops are named combinators:

  apply_query_operators       the dispatch chain over the operator's type (call it / wrap it in WhereEqual /
                              filter with it), folded over the operators in order
  WhereEqual.__call__         for-each instance in order, for-all items, which comparison breaks, when it yields
  OrderBy.__call__            the key (list of getattr in attribute order), `sorted`, whether `reverse=self.reverse`
                              is passed (reverse handled INSIDE the stable sort)
  MetaClass.select_one / select_many / query, MetaModel.select_*, QuerySet.first / last
                              source = storage, operators applied, result form (QuerySet / first element or None)
  NavChain.__init__ / nav / _nav / __call__, NavOneChain.__call__, navigate_one / any / many
                              handle normalisation, the per-step loop (for each handle element in order, yield
                              every result of metaclass.navigate, duplicates kept), result forms
  MetaClass.navigate, _find_assoc_links, Link.navigate
                              direct entry under (kind.upper(), rel_id, phrase), else the first link passing the
                              skip test whose far class has the key; union into an OrderedSet in encounter order
  navigate_subtype            the loop over the link keys, the skip test, the probe, the first truthy result
  sort_reflexive              the empty-set guard, the other-phrase search (skip conditions in order), the
                              first-instance filter (negated navigation across the GIVEN phrase), the fall-back to
                              set.first, the generator: for each first, `while inst:` with the body statements in
                              order (yield if in set / advance across the OTHER phrase / break if back at first)

Statements whose content the IR does not parameterise are compared exactly (as syntax trees) with the expected
text; anything else raises (= broken tie).  Props/C09.lean and Props/C16.lean prove that the models equal a
generic interpretation of this IR.
"""
import ast
import os
import re

OUTPUTS = ['QueryShape.lean']


# --------------------------------------------------------------------------- helpers

def _strip_doc(body):
    body = list(body)
    if body and isinstance(body[0], ast.Expr) and isinstance(getattr(body[0], 'value', None), ast.Constant) \
            and isinstance(body[0].value.value, str):
        body = body[1:]
    return body


def _d(node):
    """syntax tree as text, without the Load/Store contexts (so that a target compares equal to an expression)"""
    return re.sub(r', ctx=(Load|Store|Del)\(\)', '', ast.dump(node))


def _dump(nodes):
    return [_d(n) for n in nodes]


def _same(stmts, expected_src, where):
    """the statements are, as syntax trees, exactly the expected source"""
    want = ast.parse(expected_src).body
    if _dump(stmts) != _dump(want):
        raise ValueError('%s: statements outside the expected shape:\n%s\n-- expected --\n%s'
                         % (where, '\n'.join(ast.unparse(s) for s in stmts), expected_src))


def _same_expr(node, expected_src):
    return _d(node) == _d(ast.parse(expected_src, mode='eval').body)


def _func(tree, name):
    for n in tree.body:
        if isinstance(n, ast.FunctionDef) and n.name == name:
            return n
    raise ValueError('function %s not found' % name)


def _class(tree, cls):
    for n in tree.body:
        if isinstance(n, ast.ClassDef) and n.name == cls:
            return n
    raise ValueError('class %s not found' % cls)


def _method(tree, cls, name):
    for f in _class(tree, cls).body:
        if isinstance(f, ast.FunctionDef) and f.name == name:
            return f
    raise ValueError('%s.%s not found' % (cls, name))


def _params(f):
    a = f.args
    return [x.arg for x in a.args] + (['*' + a.vararg.arg] if a.vararg else []) + (['**' + a.kwarg.arg] if a.kwarg else [])


def _bexp(n, atoms, where):
    for src, name in atoms.items():
        if _same_expr(n, src):
            return '(.atom .%s)' % name
    if isinstance(n, ast.BoolOp):
        ctor = '.and' if isinstance(n.op, ast.And) else '.or'
        out = _bexp(n.values[-1], atoms, where)
        for v in reversed(n.values[:-1]):
            out = '(%s %s %s)' % (ctor, _bexp(v, atoms, where), out)
        return out
    if isinstance(n, ast.UnaryOp) and isinstance(n.op, ast.Not):
        return '(.not %s)' % _bexp(n.operand, atoms, where)
    raise ValueError('%s: condition outside the translated fragment: %s' % (where, ast.unparse(n)))


# --------------------------------------------------------------------------- apply_query_operators

def _dispatch(tree):
    f = _func(tree, 'apply_query_operators')
    body = _strip_doc(f.body)
    if _params(f) != ['iterable', 'ops'] or len(body) != 2 or not isinstance(body[0], ast.For) \
            or not _same_expr(body[0].target, 'op') or not _same_expr(body[0].iter, 'ops') or body[0].orelse \
            or len(body[0].body) != 1:
        raise ValueError('apply_query_operators: unexpected shape')
    _same([body[1]], 'return iterable', 'apply_query_operators')
    tests = {'isinstance(op, WhereEqual)': 'isWhereEqual', 'isinstance(op, OrderBy)': 'isOrderBy',
             'isinstance(op, dict)': 'isDict'}
    acts = {'iterable = op(iterable)': 'callOp', 'iterable = WhereEqual(op)(iterable)': 'wrapWhereEqual',
            'iterable = filter(op, iterable)': 'filterWith'}

    def act(stmts):
        if len(stmts) == 1:
            for src, name in acts.items():
                if _dump(stmts) == _dump(ast.parse(src).body):
                    return '.' + name
        raise ValueError('apply_query_operators: action outside the expected shape: %s'
                         % '; '.join(ast.unparse(s) for s in stmts))
    chain = []
    node = body[0].body[0]
    while True:
        if not isinstance(node, ast.If):
            raise ValueError('apply_query_operators: expected an if/elif chain')
        t = [name for src, name in tests.items() if _same_expr(node.test, src)]
        if not t:
            raise ValueError('apply_query_operators: test outside the expected shape: %s' % ast.unparse(node.test))
        chain.append('(.%s, %s)' % (t[0], act(node.body)))
        if len(node.orelse) == 1 and isinstance(node.orelse[0], ast.If):
            node = node.orelse[0]
            continue
        return chain, act(node.orelse)


# --------------------------------------------------------------------------- where_eq / order_by

def _where(tree):
    f = _method(tree, 'WhereEqual', '__call__')
    body = _strip_doc(f.body)
    if _params(f) != ['self', 's'] or len(body) != 2:
        raise ValueError('WhereEqual.__call__: unexpected shape')
    _same([body[0]], 'items = collections.deque(self.items())', 'WhereEqual.__call__')
    outer = body[1]
    if not (isinstance(outer, ast.For) and _same_expr(outer.target, 'inst') and _same_expr(outer.iter, 'iter(s)')
            and not outer.orelse and len(outer.body) == 1 and isinstance(outer.body[0], ast.For)):
        raise ValueError('WhereEqual.__call__: outer loop of unexpected shape')
    inner = outer.body[0]
    if not (_same_expr(inner.target, '(name, value)') and _same_expr(inner.iter, 'iter(items)') and len(inner.body) == 1
            and isinstance(inner.body[0], ast.If) and not inner.body[0].orelse
            and _dump(inner.body[0].body) == _dump(ast.parse('break').body)):
        raise ValueError('WhereEqual.__call__: inner loop of unexpected shape')
    test = inner.body[0].test
    if _same_expr(test, 'getattr(inst, name) != value'):
        brk = '.ne'
    elif _same_expr(test, 'getattr(inst, name) == value'):
        brk = '.eq'
    else:
        raise ValueError('WhereEqual.__call__: comparison outside the expected shape: %s' % ast.unparse(test))
    if _dump(inner.orelse) == _dump(ast.parse('yield inst').body):
        yld = '.completed'
    else:
        raise ValueError('WhereEqual.__call__: expected `else: yield inst` on the inner loop')
    _same(_strip_doc(_func(tree, 'where_eq').body), 'return WhereEqual(kwargs)', 'where_eq')
    return brk, yld


def _order(tree):
    f = _method(tree, 'OrderBy', '__call__')
    body = _strip_doc(f.body)
    if _params(f) != ['self', 's'] or len(body) != 2:
        raise ValueError('OrderBy.__call__: unexpected shape')
    st = body[0]
    if not (isinstance(st, ast.Assign) and _same_expr(st.targets[0], 'key') and isinstance(st.value, ast.Lambda)):
        raise ValueError('OrderBy.__call__: key is not a lambda')
    if _same_expr(st.value, 'lambda el: [getattr(el, name) for name in self]'):
        key = '.listOfGetattr'
    elif _same_expr(st.value, 'lambda el: tuple(getattr(el, name) for name in self)'):
        key = '.tupleOfGetattr'
    else:
        raise ValueError('OrderBy.__call__: key of unexpected shape: %s' % ast.unparse(st.value))
    ret = body[1]
    if _dump([ret]) == _dump(ast.parse('return sorted(s, key=key, reverse=self.reverse)').body):
        rev = 'true'
    elif _dump([ret]) == _dump(ast.parse('return sorted(s, key=key)').body):
        rev = 'false'
    else:
        raise ValueError('OrderBy.__call__: result of unexpected shape: %s' % ast.unparse(ret))
    _same(_strip_doc(_method(tree, 'OrderBy', '__init__').body),
          'list.__init__(self, attrs)\nself.reverse = reverse', 'OrderBy.__init__')
    _same(_strip_doc(_func(tree, 'order_by').body), 'return OrderBy(attrs, reverse=False)', 'order_by')
    _same(_strip_doc(_func(tree, 'reverse_order_by').body), 'return OrderBy(attrs, reverse=True)', 'reverse_order_by')
    return key, rev


# --------------------------------------------------------------------------- select / first / last

RESULT = {'if isinstance(%s, QuerySet):\n    return %s\nelse:\n    return QuerySet(%s)': '.querySet',
          'return next(iter(%s), None)': '.firstOrNone'}


def _result_form(stmts, var, where):
    for src, name in RESULT.items():
        if _dump(stmts) == _dump(ast.parse(src.replace('%s', var)).body):
            return name
    raise ValueError('%s: result of unexpected shape: %s' % (where, '; '.join(ast.unparse(s) for s in stmts)))


def _select(tree):
    out = {}
    for name in ('select_many', 'select_one'):
        b = _strip_doc(_method(tree, 'MetaClass', name).body)
        _same(b[:1], 's = apply_query_operators(self.storage, args)', 'MetaClass.' + name)
        out[name] = _result_form(b[1:], 's', 'MetaClass.' + name)
        _same(_strip_doc(_method(tree, 'MetaModel', name).body),
              'metaclass = self.find_metaclass(kind)\nreturn metaclass.%s(*args)' % name, 'MetaModel.' + name)
    alias = [n for n in _class(tree, 'MetaModel').body if isinstance(n, ast.Assign) and _same_expr(n.targets[0], 'select_any')]
    if len(alias) != 1 or not _same_expr(alias[0].value, 'select_one'):
        raise ValueError('MetaModel.select_any is not an alias of select_one')
    _same(_strip_doc(_method(tree, 'MetaClass', 'query').body), 'return WhereEqual(dictonary_of_values)(self.storage)',
          'MetaClass.query')
    _same(_strip_doc(_method(tree, 'QuerySet', 'first').body), 'if len(self):\n    return next(iter(self))', 'QuerySet.first')
    _same(_strip_doc(_method(tree, 'QuerySet', 'last').body), 'if len(self):\n    return next(reversed(self))', 'QuerySet.last')
    return out


# --------------------------------------------------------------------------- navigation chains

def _nav(tree):
    _same(_strip_doc(_method(tree, 'NavChain', '__init__').body),
          "if handle is None:\n    handle = []\nelif isinstance(handle, Class):\n    handle = [handle]\n"
          "elif not isinstance(handle, collections.abc.Iterable):\n"
          "    raise MetaException(\"Unable to navigate across '%s'\" % type(handle))\n"
          "self.handle = handle\nself._kind = None", 'NavChain.__init__')
    _same(_strip_doc(_method(tree, 'NavChain', 'nav').body),
          'self.handle = NavChain._nav(self.handle, kind, relid, phrase)\nreturn self', 'NavChain.nav')
    f = _method(tree, 'NavChain', '_nav')
    body = _strip_doc(f.body)
    if _params(f) != ['handle', 'kind', 'rel_id', 'phrase'] or len(body) != 2:
        raise ValueError('NavChain._nav: unexpected shape')
    _same(body[:1], "if isinstance(rel_id, int):\n    rel_id = 'R%d' % rel_id", 'NavChain._nav')
    loop = body[1]
    if not (isinstance(loop, ast.For) and _same_expr(loop.target, 'inst') and _same_expr(loop.iter, 'iter(handle)')
            and not loop.orelse and len(loop.body) == 2):
        raise ValueError('NavChain._nav: outer loop of unexpected shape')
    _same(loop.body[:1], 'metaclass = get_metaclass(inst)', 'NavChain._nav')
    inner = loop.body[1]
    if not (isinstance(inner, ast.For) and _same_expr(inner.target, 'result')
            and _same_expr(inner.iter, 'metaclass.navigate(inst, kind, rel_id, phrase)') and not inner.orelse):
        raise ValueError('NavChain._nav: inner loop of unexpected shape')
    if _dump(inner.body) == _dump(ast.parse('yield result').body):
        inner_form = '.yieldEach'
    else:
        raise ValueError('NavChain._nav: the inner loop does more than `yield result`: %s'
                         % '; '.join(ast.unparse(s) for s in inner.body))
    b = _strip_doc(_method(tree, 'NavChain', '__call__').body)
    _same(b[:2], 'handle = self.handle or list()\nhandle = apply_query_operators(handle, args)', 'NavChain.__call__')
    many = _result_form(b[2:], 'handle', 'NavChain.__call__')
    b = _strip_doc(_method(tree, 'NavOneChain', '__call__').body)
    _same(b[:2], 'handle = self.handle or list()\nhandle = apply_query_operators(handle, args)', 'NavOneChain.__call__')
    one = _result_form(b[2:], 'handle', 'NavOneChain.__call__')
    _same(_strip_doc(_func(tree, 'navigate_one').body), 'return navigate_any(instance)', 'navigate_one')
    _same(_strip_doc(_func(tree, 'navigate_any').body), 'return NavOneChain(instance_or_set)', 'navigate_any')
    _same(_strip_doc(_func(tree, 'navigate_many').body), 'return NavChain(instance_or_set)', 'navigate_many')
    return inner_form, many, one


def _navigate(tree):
    f = _method(tree, 'MetaClass', 'navigate')
    b = _strip_doc(f.body)
    _same(b, "key = (kind.upper(), rel_id, phrase)\n"
             "if key in self.links:\n    link = self.links[key]\n    return link.navigate(inst)\n"
             "link1, link2 = self._find_assoc_links(kind, rel_id, phrase)\n"
             "inst_set = xtuml.OrderedSet()\n"
             "for inst in link1.navigate(inst):\n    inst_set |= link2.navigate(inst)\n"
             "return inst_set", 'MetaClass.navigate')
    _same(_strip_doc(_method(tree, 'Link', 'navigate').body),
          'if instance in self:\n    return self[instance]\nelse:\n    return set()', 'Link.navigate')
    _same(_strip_doc(_method(tree, 'Link', 'navigate_one').body),
          'return next(iter(self.navigate(instance)), None)', 'Link.navigate_one')
    g = _method(tree, 'MetaClass', '_find_assoc_links')
    b = _strip_doc(g.body)
    if len(b) != 3:
        raise ValueError('_find_assoc_links: unexpected shape')
    _same(b[:1], 'key = (kind.upper(), rel_id, phrase)', '_find_assoc_links')
    loop = b[1]
    if not (isinstance(loop, ast.For) and _same_expr(loop.target, 'link') and _same_expr(loop.iter, 'self.links.values()')
            and not loop.orelse and len(loop.body) == 3 and isinstance(loop.body[0], ast.If) and not loop.body[0].orelse
            and _dump(loop.body[0].body) == _dump(ast.parse('continue').body)):
        raise ValueError('_find_assoc_links: loop of unexpected shape')
    skip = _bexp(loop.body[0].test, {'link.rel_id != rel_id': 'relDiffers', 'link.phrase != phrase': 'phraseDiffers'},
                 '_find_assoc_links')
    _same(loop.body[1:], 'metaclass = self.metamodel.find_metaclass(link.kind)\n'
                         'if key in metaclass.links:\n    return link, metaclass.links[key]', '_find_assoc_links')
    _same(b[2:], 'raise UnknownLinkException(self.kind, kind, rel_id, phrase)', '_find_assoc_links')
    return skip


def _subtype(tree):
    f = _func(tree, 'navigate_subtype')
    b = _strip_doc(f.body)
    _same(b[:3], "if not supertype:\n    return\nif isinstance(rel_id, int):\n    rel_id = 'R%d' % rel_id\n"
                 "metaclass = get_metaclass(supertype)", 'navigate_subtype')
    if len(b) != 4 or not isinstance(b[3], ast.For) or not _same_expr(b[3].target, '(kind, rel_id_candidate, _)') \
            or not _same_expr(b[3].iter, 'metaclass.links') or b[3].orelse or len(b[3].body) != 3:
        raise ValueError('navigate_subtype: loop of unexpected shape')
    st = b[3].body[0]
    if not (isinstance(st, ast.If) and not st.orelse and _dump(st.body) == _dump(ast.parse('continue').body)):
        raise ValueError('navigate_subtype: skip test of unexpected shape')
    skip = _bexp(st.test, {'rel_id != rel_id_candidate': 'relDiffers'}, 'navigate_subtype')
    _same(b[3].body[1:], 'subtype = navigate_one(supertype).nav(kind, rel_id)()\nif subtype:\n    return subtype',
          'navigate_subtype')
    return skip


# --------------------------------------------------------------------------- sort_reflexive

def _sort(tree):
    f = _func(tree, 'sort_reflexive')
    b = _strip_doc(f.body)
    if _params(f) != ['set_of_instances', 'rel_id', 'phrase'] or len(b) != 10:
        raise ValueError('sort_reflexive: expected 10 statements, found %d' % len(b))
    _same(b[:4], "if not isinstance(set_of_instances, QuerySet):\n"
                 "    raise MetaException('The collection to sort must be a QuerySet')\n"
                 "if not set_of_instances.first:\n    return QuerySet()\n"
                 "if isinstance(rel_id, int):\n    rel_id = 'R%d' % rel_id\n"
                 "metaclass = get_metaclass(set_of_instances.first)", 'sort_reflexive')
    loop = b[4]
    if not (isinstance(loop, ast.For) and _same_expr(loop.target, 'link') and _same_expr(loop.iter, 'metaclass.links.values()')):
        raise ValueError('sort_reflexive: other-phrase loop of unexpected shape')
    _same(loop.orelse, 'raise UnknownLinkException(metaclass.kind, metaclass.kind, rel_id, phrase)', 'sort_reflexive')
    _same(loop.body[-2:], 'other_phrase = link.phrase\nbreak', 'sort_reflexive')
    skips = []
    atoms = {'link.to_metaclass != metaclass': 'leadsElsewhere', 'link.rel_id != rel_id': 'relDiffers',
             'link.phrase == phrase': 'phraseSame'}
    for st in loop.body[:-2]:
        if not (isinstance(st, ast.If) and not st.orelse and _dump(st.body) == _dump(ast.parse('continue').body)):
            raise ValueError('sort_reflexive: skip statement of unexpected shape: %s' % ast.unparse(st))
        skips.append(_bexp(st.test, atoms, 'sort_reflexive'))
    # the first-instance filter
    st = b[5]
    if not (isinstance(st, ast.Assign) and _same_expr(st.targets[0], 'first_filt') and isinstance(st.value, ast.Lambda)
            and [a.arg for a in st.value.args.args] == ['sel']):
        raise ValueError('sort_reflexive: first_filt is not a lambda over `sel`')
    lam = st.value.body
    negated = False
    if isinstance(lam, ast.UnaryOp) and isinstance(lam.op, ast.Not):
        negated = True
        lam = lam.operand
    if _same_expr(lam, 'navigate_one(sel).nav(metaclass.kind, rel_id, phrase)()'):
        filt_phrase = '.given'
    elif _same_expr(lam, 'navigate_one(sel).nav(metaclass.kind, rel_id, other_phrase)()'):
        filt_phrase = '.other'
    else:
        raise ValueError('sort_reflexive: first_filt of unexpected shape: %s' % ast.unparse(st.value))
    _same(b[6:8], 'first_instances = list(filter(first_filt, set_of_instances))\n'
                  'if not first_instances:\n    first_instances = [set_of_instances.first]', 'sort_reflexive')
    gen = b[8]
    if not (isinstance(gen, ast.FunctionDef) and gen.name == 'sequence_generator' and len(gen.body) == 1
            and isinstance(gen.body[0], ast.For) and _same_expr(gen.body[0].target, 'first')
            and _same_expr(gen.body[0].iter, 'first_instances') and not gen.body[0].orelse and len(gen.body[0].body) == 2):
        raise ValueError('sort_reflexive: generator of unexpected shape')
    _same(gen.body[0].body[:1], 'inst = first', 'sort_reflexive')
    wl = gen.body[0].body[1]
    if not (isinstance(wl, ast.While) and _same_expr(wl.test, 'inst') and not wl.orelse):
        raise ValueError('sort_reflexive: expected `while inst:`')
    stmts = []
    for st in wl.body:
        d = _dump([st])
        if d == _dump(ast.parse('if inst in set_of_instances:\n    yield inst').body):
            stmts.append('.yieldIfInSet')
        elif d == _dump(ast.parse('inst = navigate_one(inst).nav(metaclass.kind, rel_id, other_phrase)()').body):
            stmts.append('.advance .other')
        elif d == _dump(ast.parse('inst = navigate_one(inst).nav(metaclass.kind, rel_id, phrase)()').body):
            stmts.append('.advance .given')
        elif d == _dump(ast.parse('if inst is first:\n    break').body):
            stmts.append('.breakIfIsFirst')
        else:
            raise ValueError('sort_reflexive: loop statement outside the expected shape: %s' % ast.unparse(st))
    _same(b[9:], 'return QuerySet(sequence_generator())', 'sort_reflexive')
    return skips, negated, filt_phrase, stmts


# --------------------------------------------------------------------------- emit

HEADER = '''/-
  GENERATED by translator/gen_queryshape.py from xtuml/meta.py — do not edit.
  The statement structure of the query side (apply_query_operators, WhereEqual, OrderBy, select_*, the navigation
  chains, MetaClass.navigate / _find_assoc_links, navigate_subtype, sort_reflexive) as a first-order IR.
  Props/C09.lean and Props/C16.lean prove that the models equal the generic interpretation of this IR.
-/
namespace Pyx.Gen.QueryShape

inductive BExp (α : Type) where
  | atom (a : α)
  | and (l r : BExp α)
  | or (l r : BExp α)
  | not (e : BExp α)
  deriving Repr

/-- tests of the dispatch chain in apply_query_operators -/
inductive OpTest where
  | isWhereEqual | isOrderBy | isDict
  deriving DecidableEq, Repr

inductive OpAct where
  | callOp              -- iterable = op(iterable)
  | wrapWhereEqual      -- iterable = WhereEqual(op)(iterable)
  | filterWith          -- iterable = filter(op, iterable)
  deriving DecidableEq, Repr

inductive Cmp where
  | ne | eq
  deriving DecidableEq, Repr

inductive LoopExit where
  | completed           -- the `else:` of the for loop: no break happened
  | broke
  deriving DecidableEq, Repr

/-- WhereEqual.__call__: for each instance in order; for all items: `if getattr(inst, name) <breakWhen> value: break`;
    the instance is yielded when the inner loop ends as `yieldWhen` -/
structure WhereShape where
  breakWhen : Cmp
  yieldWhen : LoopExit
  deriving Repr

inductive KeyForm where
  | listOfGetattr | tupleOfGetattr      -- both compare lexicographically, attribute by attribute, in the given order
  deriving DecidableEq, Repr

/-- OrderBy.__call__: `sorted(s, key=<key>[, reverse=self.reverse])` -/
structure OrderShape where
  key : KeyForm
  passesReverseFlag : Bool
  deriving Repr

inductive ResultForm where
  | querySet            -- QuerySet(result): first-occurrence de-duplication, order kept
  | firstOrNone         -- next(iter(result), None)
  deriving DecidableEq, Repr

inductive NavInner where
  | yieldEach           -- for result in metaclass.navigate(inst, kind, rel_id, phrase): yield result
  deriving DecidableEq, Repr

inductive AssocAtom where
  | relDiffers | phraseDiffers
  deriving DecidableEq, Repr

inductive SubAtom where
  | relDiffers
  deriving DecidableEq, Repr

inductive OtherAtom where
  | leadsElsewhere      -- link.to_metaclass != metaclass
  | relDiffers          -- link.rel_id != rel_id
  | phraseSame          -- link.phrase == phrase
  deriving DecidableEq, Repr

inductive PhraseSel where
  | given | other
  deriving DecidableEq, Repr

/-- statements of the `while inst:` body of sort_reflexive's generator -/
inductive WStmt where
  | yieldIfInSet
  | advance (p : PhraseSel)       -- inst = navigate_one(inst).nav(kind, rel_id, <phrase>)()
  | breakIfIsFirst
  deriving DecidableEq, Repr

'''


def generate(repo_dir):
    tree = ast.parse(open(os.path.join(repo_dir, 'xtuml', 'meta.py'), encoding='utf-8').read())
    chain, els = _dispatch(tree)
    brk, yld = _where(tree)
    key, rev = _order(tree)
    sel = _select(tree)
    nav_inner, nav_many, nav_one = _nav(tree)
    assoc_skip = _navigate(tree)
    sub_skip = _subtype(tree)
    skips, negated, filt_phrase, stmts = _sort(tree)
    out = [HEADER]
    out.append('/-- apply_query_operators: `for op in ops:` the first test that holds decides; `opElse` otherwise -/')
    out.append('def opDispatch : List (OpTest × OpAct) := [ %s ]\n' % ', '.join(chain))
    out.append('def opElse : OpAct := %s\n' % els)
    out.append('def whereShape : WhereShape := { breakWhen := %s, yieldWhen := %s }\n' % (brk, yld))
    out.append('def orderShape : OrderShape := { key := %s, passesReverseFlag := %s }\n' % (key, rev))
    out.append('/-- MetaClass.select_many / select_one (= select_any) over `self.storage`; the chains\' `__call__` -/')
    out.append('def selectManyResult : ResultForm := %s\n' % sel['select_many'])
    out.append('def selectOneResult : ResultForm := %s\n' % sel['select_one'])
    out.append('def navManyResult : ResultForm := %s\n' % nav_many)
    out.append('def navOneResult : ResultForm := %s\n' % nav_one)
    out.append('/-- NavChain._nav: for each handle element in order, the inner loop over metaclass.navigate(…) -/')
    out.append('def navInner : NavInner := %s\n' % nav_inner)
    out.append('/-- _find_assoc_links: a link of the class is skipped when this holds -/')
    out.append('def assocSkip : BExp AssocAtom := %s\n' % assoc_skip)
    out.append('/-- navigate_subtype: a link key is skipped when this holds -/')
    out.append('def subtypeSkip : BExp SubAtom := %s\n' % sub_skip)
    out.append('/-- sort_reflexive: the skip conditions of the other-phrase search, in order -/')
    out.append('def otherSkips : List (BExp OtherAtom) := [ %s ]\n' % ', '.join(skips))
    out.append('/-- first_filt = lambda sel: [not] navigate_one(sel).nav(kind, rel_id, <phrase>)() -/')
    out.append('def firstFiltNegated : Bool := %s\n' % ('true' if negated else 'false'))
    out.append('def firstFiltPhrase : PhraseSel := %s\n' % filt_phrase)
    out.append('/-- the body of `while inst:` -/')
    out.append('def walkBody : List WStmt := [ %s ]\n' % ', '.join(stmts))
    out.append('end Pyx.Gen.QueryShape\n')
    return [('QueryShape.lean', '\n'.join(out))]


if __name__ == '__main__':
    import sys
    for name, text in generate(sys.argv[1] if len(sys.argv) > 1 else '/repo'):
        sys.stdout.write(text)
