"""xtuml/persist.py -> lean/Gen/Persist.lean:
Read with `ast` only:
  * serialize_value: the `null_value` dict (type -> literal), the `transfer_fn` dict
    (type -> lambda v: FORMAT % ARG), whether the type name is upper-cased first, whether an unset
    value is replaced through `null_value`
  * for every serialize_* / persist_* function: its string constants in source order (statement
    templates), the iterables of its loops/comprehensions (orderings), and the functions it calls
"""
import ast
import os


OUTPUTS = ['Persist.lean']


def _lean_str(s):
    out = []
    for ch in s:
        o = ord(ch)
        if ch == '"':
            out.append('\\"')
        elif ch == '\\':
            out.append('\\\\')
        elif 32 <= o < 127:
            out.append(ch)
        elif o < 256:
            out.append('\\x%02x' % o)
        else:
            out.append('\\u%04x' % o)
    return '"' + ''.join(out) + '"'


def _lean_chars(s):
    return '[' + ', '.join('Char.ofNat %d' % ord(ch) for ch in s) + ']'


def _is_docstring(fn, node):
    return bool(fn.body) and isinstance(fn.body[0], ast.Expr) and fn.body[0].value is node


def _lit(node):
    v = ast.literal_eval(node)
    if v is True or v is False:
        return '.bool %s' % ('true' if v else 'false')
    if isinstance(v, int):
        return '.int (%d)' % v
    if isinstance(v, float):
        return '.float %s' % _lean_str(repr(v))
    if isinstance(v, str):
        return '.str %s' % _lean_chars(v)
    raise ValueError('unsupported null literal %r' % (v,))


def _arg(node, var):
    """classify the right operand of `FORMAT % ARG` in a transfer lambda"""
    if isinstance(node, ast.Name) and node.id == var:
        return '.v'
    if isinstance(node, ast.Call):
        f = node.func
        if isinstance(f, ast.Name) and f.id == 'int' and len(node.args) == 1 and not node.keywords \
                and isinstance(node.args[0], ast.Name) and node.args[0].id == var:
            return '.intOf'
        if isinstance(f, ast.Attribute) and f.attr == 'replace' and isinstance(f.value, ast.Name) \
                and f.value.id == var and len(node.args) == 2 and not node.keywords:
            a, b = ast.literal_eval(node.args[0]), ast.literal_eval(node.args[1])
            return '.replace %s %s' % (_lean_chars(a), _lean_chars(b))
        if isinstance(f, ast.Attribute) and f.attr == 'UUID' and isinstance(f.value, ast.Name) \
                and f.value.id == 'uuid' and not node.args and len(node.keywords) == 1 \
                and node.keywords[0].arg == 'int' and isinstance(node.keywords[0].value, ast.Name) \
                and node.keywords[0].value.id == var:
            return '.uuidOfInt'
    raise ValueError('transfer argument of unknown shape: %s' % ast.unparse(node))


def generate(repo_dir):
    path = os.path.join(repo_dir, 'xtuml', 'persist.py')
    tree = ast.parse(open(path, encoding='utf-8').read())
    funcs = [n for n in tree.body if isinstance(n, ast.FunctionDef)]
    byname = {f.name: f for f in funcs}
    if 'serialize_value' not in byname:
        raise ValueError('serialize_value not found')
    sv = byname['serialize_value']
    nulls = transfer = None
    upper_first = False
    none_uses_null = False
    for node in ast.walk(sv):
        if isinstance(node, ast.Assign) and len(node.targets) == 1 and isinstance(node.targets[0], ast.Name):
            nm = node.targets[0].id
            if nm == 'null_value' and isinstance(node.value, ast.Dict):
                nulls = [(ast.literal_eval(k), _lit(v)) for k, v in zip(node.value.keys, node.value.values)]
            elif nm == 'transfer_fn' and isinstance(node.value, ast.Dict):
                transfer = []
                for k, v in zip(node.value.keys, node.value.values):
                    if not (isinstance(v, ast.Lambda) and len(v.args.args) == 1 and isinstance(v.body, ast.BinOp)
                            and isinstance(v.body.op, ast.Mod) and isinstance(v.body.left, ast.Constant)
                            and isinstance(v.body.left.value, str)):
                        raise ValueError('transfer_fn[%r] is not `lambda v: FORMAT %% ARG`' % ast.literal_eval(k))
                    transfer.append((ast.literal_eval(k), v.body.left.value, _arg(v.body.right, v.args.args[0].arg)))
            elif nm == 'ty' and ast.unparse(node.value) == 'ty.upper()':
                upper_first = True
        if isinstance(node, ast.If) and ast.unparse(node.test) == 'value is None' \
                and len(node.body) == 1 and ast.unparse(node.body[0]) == 'value = null_value[ty]':
            none_uses_null = True
    if nulls is None or transfer is None:
        raise ValueError('null_value / transfer_fn dict literals not found in serialize_value')
    tys = [k for k, _, _ in transfer]
    if sorted(tys) != sorted(k for k, _ in nulls):
        raise ValueError('null_value and transfer_fn have different key sets')
    for t in tys:
        if not (isinstance(t, str) and t.isidentifier() and t.isascii() and t == t.upper()):
            raise ValueError('type name %r' % (t,))
    last = sv.body[-1]
    ret_ok = isinstance(last, ast.Return) and ast.unparse(last.value) == 'transfer_fn[ty](value)'
    nmap = dict(nulls)

    info = []
    for f in funcs:
        if not (f.name.startswith('serialize') or f.name.startswith('persist')):
            continue
        consts, iters, calls = [], [], []
        for node in ast.walk(f):
            if isinstance(node, ast.Constant) and isinstance(node.value, str) and not _is_docstring(f, node):
                consts.append((node.lineno, node.col_offset, node.value))
            elif isinstance(node, ast.For):
                iters.append((node.lineno, node.col_offset, ast.unparse(node.iter)))
            elif isinstance(node, ast.comprehension):
                iters.append((node.iter.lineno, node.iter.col_offset, ast.unparse(node.iter)))
            elif isinstance(node, ast.Lambda) and f.name != 'serialize_value':
                iters.append((node.lineno, node.col_offset, ast.unparse(node)))
            elif isinstance(node, ast.Call):
                fn = node.func
                nm = fn.id if isinstance(fn, ast.Name) else (fn.attr if isinstance(fn, ast.Attribute) else None)
                if nm and (nm.startswith('serialize') or nm.startswith('persist')):
                    calls.append((node.lineno, node.col_offset, nm))
        info.append((f.name, [c for _, _, c in sorted(consts)], [c for _, _, c in sorted(iters)],
                     [c for _, _, c in sorted(calls)]))

    o = []
    o.append('/-! GENERATED by translator/gen_persist.py from xtuml/persist.py -- do not edit.')
    o.append('    Null values, value formats, statement templates and orderings as the source states them. -/')
    o.append('namespace Gen.Persist')
    o.append('')
    o.append('/-- the keys of `transfer_fn` / `null_value` -/')
    o.append('inductive Ty where')
    for t in tys:
        o.append('  | %s' % t)
    o.append('  deriving DecidableEq, Repr, Inhabited')
    o.append('')
    o.append('def Ty.all : List Ty := [%s]' % ', '.join('.%s' % t for t in tys))
    o.append('')
    o.append('def Ty.chars : Ty → List Char')
    for t in tys:
        o.append('  | .%s => %s' % (t, _lean_chars(t)))
    o.append('')
    o.append('inductive Lit where')
    o.append('  | bool (b : Bool)')
    o.append('  | int (n : Int)')
    o.append('  | float (repr : String)')
    o.append('  | str (cs : List Char)')
    o.append('  deriving DecidableEq, Repr')
    o.append('')
    o.append('/-- `null_value` -/')
    o.append('def nullValue : Ty → Lit')
    for t in tys:
        o.append('  | .%s => %s' % (t, nmap[t]))
    o.append('')
    o.append('/-- the argument expression of a transfer lambda `lambda v: FORMAT % ARG` -/')
    o.append('inductive Arg where')
    o.append('  | v                                  -- v')
    o.append('  | intOf                              -- int(v)')
    o.append('  | replace (a b : List Char)          -- v.replace(a, b)')
    o.append('  | uuidOfInt                          -- uuid.UUID(int=v)')
    o.append('  deriving DecidableEq, Repr')
    o.append('')
    o.append('/-- `transfer_fn`: (FORMAT, ARG) -/')
    o.append('def transfer : Ty → String × Arg')
    for t, fmt, arg in transfer:
        o.append('  | .%s => (%s, %s)' % (t, _lean_str(fmt), arg))
    o.append('')
    o.append('/-- `ty = ty.upper()` precedes the table lookups -/')
    o.append('def typeUpperCasedFirst : Bool := %s' % ('true' if upper_first else 'false'))
    o.append('/-- `if value is None: value = null_value[ty]` -/')
    o.append('def unsetUsesNullValue : Bool := %s' % ('true' if none_uses_null else 'false'))
    o.append('/-- the function ends with `return transfer_fn[ty](value)` -/')
    o.append('def returnsTransfer : Bool := %s' % ('true' if ret_ok else 'false'))
    o.append('')
    o.append('/-- per function: its string constants in source order -/')
    o.append('def templates : List (String × List String) := [')
    o.append(',\n'.join('  (%s, [%s])' % (_lean_str(n), ', '.join(_lean_str(c) for c in cs)) for n, cs, _, _ in info))
    o.append(']')
    o.append('')
    o.append('/-- per function: the iterables of its loops / comprehensions and its sort-key lambdas, in source order -/')
    o.append('def orderings : List (String × List String) := [')
    o.append(',\n'.join('  (%s, [%s])' % (_lean_str(n), ', '.join(_lean_str(c) for c in it)) for n, _, it, _ in info))
    o.append(']')
    o.append('')
    o.append('/-- per function: the serialize_* / persist_* functions it calls, in source order -/')
    o.append('def calls : List (String × List String) := [')
    o.append(',\n'.join('  (%s, [%s])' % (_lean_str(n), ', '.join(_lean_str(c) for c in cl)) for n, _, _, cl in info))
    o.append(']')
    o.append('')
    o.append('end Gen.Persist')
    o.append('')
    return [('Persist.lean', '\n'.join(o))]
