"""Fingerprints of the hand-modelled ENVIRONMENT of each property.

The shape translators read the statement structure of selected functions; the functions AROUND them (constructors that
store the arguments, helpers the read functions call, decorators, default arguments, a second definition of the same
name later in a class) are modelled by hand.  For every property tools/meta/Cxx.json lists those functions as
"environment": ["xtuml/meta.py:Link.__init__", "xtuml/meta.py:relate", …].  This module computes, for each listed
name, a digest of ALL its definitions in the file (ast.dump without docstrings, including decorators and defaults);
translator/env_snapshot.json is the committed snapshot.  The runner compares on every run: a difference is a BROKEN TIE
("the hand-modelled environment changed") — never a verdict by itself: the enlarged search for a failing input follows
as for every broken obligation.  tools/mkenv.py rewrites the snapshot after a reviewed change (e.g. a fix: commit).
"""
import ast
import hashlib
import json
import os


def _strip_doc(node):
    for n in ast.walk(node):
        if isinstance(n, (ast.FunctionDef, ast.AsyncFunctionDef, ast.ClassDef, ast.Module)) and n.body and \
                isinstance(n.body[0], ast.Expr) and isinstance(getattr(n.body[0], 'value', None), ast.Constant) and \
                isinstance(n.body[0].value.value, str):
            n.body = n.body[1:] or [ast.Pass()]
    return node


def _defs(tree, qual):
    """all definitions of the dotted name (methods through classes); a name defined twice yields both, in order"""
    parts = qual.split('.')
    level = [tree]
    for i, p in enumerate(parts):
        nxt = []
        for scope in level:
            for n in scope.body:
                if isinstance(n, (ast.FunctionDef, ast.AsyncFunctionDef, ast.ClassDef)) and n.name == p:
                    nxt.append(n)
                elif i == len(parts) - 1 and isinstance(n, ast.Assign) and any(getattr(t, 'id', None) == p for t in n.targets):
                    nxt.append(n)          # a module / class level binding (tables, aliases such as select_any = select_one)
        level = nxt
    return level


_SKIP_FIELDS = {'type_params', 'type_comment', 'kind', 'ctx'}     # differ between Python versions / carry no meaning


def _dump(n):
    """a Python-version independent rendering of a syntax tree"""
    if isinstance(n, ast.AST):
        return '%s(%s)' % (type(n).__name__, ','.join('%s=%s' % (f, _dump(getattr(n, f, None)))
                                                      for f in n._fields if f not in _SKIP_FIELDS))
    if isinstance(n, list):
        return '[%s]' % ','.join(_dump(x) for x in n)
    return repr(n)


def fingerprint(repo_dir, entry, cache={}):
    path, qual = entry.split(':', 1)
    key = (repo_dir, path)
    if key not in cache:
        cache[key] = ast.parse(open(os.path.join(repo_dir, path)).read())
    defs = _defs(cache[key], qual)
    if not defs:
        return 'MISSING'
    h = hashlib.sha256()
    for d in defs:
        h.update(_dump(_strip_doc(d)).encode('utf-8'))
        h.update(b'\0')
    return '%d:%s' % (len(defs), h.hexdigest()[:20])


def residue(repo_dir, path, cls=None, cache={}):
    """digest of the code OUTSIDE function bodies: the top-level statements of a file that are neither `def` nor `class`
    (imports, tables, aliases, rebinding such as `MetaClass.delete = …`, `setattr(…)`, definitions under `if` / `try`), resp.
    for a class its bases, decorators, keywords and the statements of its body that are not `def` (docs/audit-round4.md,
    finding 3: module-level rebinding was invisible to the per-function digests)"""
    key = (repo_dir, path)
    if key not in cache:
        cache[key] = ast.parse(open(os.path.join(repo_dir, path)).read())
    tree = cache[key]
    h = hashlib.sha256()
    if cls is None:
        nodes = [n for n in tree.body if not isinstance(n, (ast.FunctionDef, ast.AsyncFunctionDef, ast.ClassDef))]
        # names bound more than once at module level (a second `def f` later in the file replaces the first)
        names = [n.name for n in tree.body if isinstance(n, (ast.FunctionDef, ast.AsyncFunctionDef, ast.ClassDef))]
        h.update(repr(sorted(x for x in set(names) if names.count(x) > 1)).encode('utf-8'))
    else:
        classes = [n for n in tree.body if isinstance(n, ast.ClassDef) and n.name == cls]
        if not classes:
            return 'MISSING'
        nodes = []
        for c in classes:
            nodes += list(c.bases) + list(c.keywords) + list(c.decorator_list)
            nodes += [n for n in c.body if not isinstance(n, (ast.FunctionDef, ast.AsyncFunctionDef))]
            names = [n.name for n in c.body if isinstance(n, (ast.FunctionDef, ast.AsyncFunctionDef))]
            h.update(repr(sorted(x for x in set(names) if names.count(x) > 1)).encode('utf-8'))
    for n in nodes:
        h.update(_dump(_strip_doc(n)).encode('utf-8'))
        h.update(b'\0')
    return '%d:%s' % (len(nodes), h.hexdigest()[:20])


def environment_of(verif_dir, prop):
    p = os.path.join(verif_dir, 'tools', 'meta', prop + '.json')
    if not os.path.exists(p):
        return []
    return list(json.load(open(p)).get('environment', []))


def current(repo_dir, verif_dir, prop):
    env = environment_of(verif_dir, prop)
    out = dict((e, fingerprint(repo_dir, e)) for e in env)
    # implied entries: the residue of every file, and of every class, named in the list
    for e in env:
        path, qual = e.split(':', 1)
        out.setdefault(path + ':<module level>', residue(repo_dir, path))
        if '.' in qual or (fingerprint(repo_dir, e) != 'MISSING' and any(isinstance(d, ast.ClassDef) for d in _defs(
                ast.parse(open(os.path.join(repo_dir, path)).read()), qual))):
            cls = qual.split('.')[0]
            out.setdefault('%s:%s<class level>' % (path, cls), residue(repo_dir, path, cls))
    return out


def snapshot(verif_dir):
    p = os.path.join(verif_dir, 'translator', 'env_snapshot.json')
    return json.load(open(p)) if os.path.exists(p) else {}


def differences(repo_dir, verif_dir, prop):
    """[(entry, was, now)] for every listed function whose definition differs from the committed snapshot"""
    snap = snapshot(verif_dir).get(prop, {})
    cur = current(repo_dir, verif_dir, prop)
    return [(e, snap.get(e, 'NOT-IN-SNAPSHOT'), cur[e]) for e in sorted(cur) if snap.get(e) != cur[e]]
