"""Translator for the OAL lexer tables and the keyword-spelling consumers:
Reads with `ast` (never imports the repository):

  bridgepoint/oal.py        OALParser.keywords, .tokens, .t_ignore, every t_* rule in PLY order (function
                            rules by source line, then string rules by decreasing regex length), the
                            flags of lex.lex(...) in text_input, the body of each rule (does it count the
                            newlines of its lexeme, set t.endlineno after that, set t.endlexpos, return the
                            token), how t_ID recognises keywords, the `many` properties of the select nodes
  bridgepoint/interpret.py  every use of node.cardinality / node.operator / BooleanNode's node.value in an
  bridgepoint/prebuild.py   accept_* handler: is it case-normalised where it is read?

and emits lean/Gen/OalLex.lean.  Regular expressions are analysed with Python's own regex parser
(`re._parser`, flags = re.VERBOSE as PLY compiles them): can the rule match a newline, is it a plain
literal, and - for the COMMENT rule - the first-character sets of the alternatives inside its repetition.
Every rule's regex is also emitted as an AST of lean/PyxModel/Regex.lean (`rx_<RULE>`, `rx`; translator/regex_ast.py
maps re._parser's output 1:1 and raises on a construct the AST does not have): Proofs/OalRegex.lean proves the
scanners of the lexer model equal to the generic matcher on these ASTs.

Anything that does not have the expected shape raises (reported by the runner as a broken tie).
"""
import ast
import os
import re

import regex_ast

try:
    import re._parser as sre_parse
    import re._constants as sre_c
except ImportError:  # pragma: no cover  (python < 3.11)
    import sre_parse
    import sre_constants as sre_c


OUTPUTS = ['OalLex.lean']

# the keyword arguments of the PLY entry points the model accounts for (none of them changes the regex flags, the
# lexer states or where the rules come from)
CALL_KEYWORDS = {'lex.lex': {'debuglog', 'errorlog', 'optimize', 'module', 'outputdir', 'lextab'},
                 'yacc.yacc': {'debuglog', 'errorlog', 'optimize', 'module', 'outputdir', 'tabmodule'}}


class Shape(Exception):
    pass


# ----------------------------------------------------------------------------------- lean literals

def lchar(ch):
    o = ord(ch)
    if ch == "'":
        return "'\\''"
    if ch == '\\':
        return "'\\\\'"
    if ch == '\n':
        return "'\\n'"
    if ch == '\t':
        return "'\\t'"
    if ch == '\r':
        return "'\\r'"
    if 32 <= o < 127:
        return "'%s'" % ch
    return "(Char.ofNat %d)" % o


def lstr(s):
    return '[' + ', '.join(lchar(c) for c in s) + ']'


def lbool(b):
    return 'true' if b else 'false'


def lcomment(s):
    return s.replace('-/', '- /').replace('/-', '/ -').replace('\n', '\\n')


# ----------------------------------------------------------------------------------- regex analysis

def _in_matches(items, ch):
    """does the character class (list of IN items) match ch ?"""
    neg = False
    hit = False
    o = ord(ch)
    for op, av in items:
        if op is sre_c.NEGATE:
            neg = True
        elif op is sre_c.LITERAL:
            hit = hit or av == o
        elif op is sre_c.RANGE:
            hit = hit or av[0] <= o <= av[1]
        elif op is sre_c.CATEGORY:
            pat = {sre_c.CATEGORY_DIGIT: r'\d', sre_c.CATEGORY_NOT_DIGIT: r'\D', sre_c.CATEGORY_SPACE: r'\s',
                   sre_c.CATEGORY_NOT_SPACE: r'\S', sre_c.CATEGORY_WORD: r'\w', sre_c.CATEGORY_NOT_WORD: r'\W'}.get(av)
            if pat is None:
                raise Shape('unsupported regex category %r' % (av,))
            hit = hit or re.match(pat, ch) is not None
        else:
            raise Shape('unsupported item %r in a character class' % (op,))
    return hit != neg


def can_match(seq, ch):
    """can a match of the parsed regex consume the character ch somewhere?"""
    o = ord(ch)
    for op, av in seq:
        if op is sre_c.LITERAL:
            if av == o:
                return True
        elif op is sre_c.NOT_LITERAL:
            if av != o:
                return True
        elif op is sre_c.ANY:
            if ch != '\n':          # no DOTALL: PLY compiles with re.VERBOSE only
                return True
        elif op is sre_c.IN:
            if _in_matches(av, ch):
                return True
        elif op is sre_c.BRANCH:
            if any(can_match(alt, ch) for alt in av[1]):
                return True
        elif op is sre_c.SUBPATTERN:
            if can_match(av[3], ch):
                return True
        elif op in (sre_c.MAX_REPEAT, sre_c.MIN_REPEAT) or op is getattr(sre_c, 'POSSESSIVE_REPEAT', None):
            if av[1] > 0 and can_match(av[2], ch):
                return True
        elif op in (sre_c.ASSERT, sre_c.ASSERT_NOT, sre_c.AT):
            pass                    # zero width
        elif op is getattr(sre_c, 'ATOMIC_GROUP', None):
            if can_match(av, ch):
                return True
        else:
            raise Shape('unsupported regex construct %r' % (op,))
    return False


def literal_of(seq):
    out = []
    for op, av in seq:
        if op is not sre_c.LITERAL:
            return None
        out.append(chr(av))
    return ''.join(out) if out else None


def only_newlines(seq):
    """regex matches only runs of '\\n' (so len(t.value) counts its newlines)"""
    for op, av in seq:
        if op is sre_c.LITERAL and av == 10:
            continue
        if op is sre_c.MAX_REPEAT and only_newlines(av[2]):
            continue
        return False
    return True


def _first_set(seq):
    """(negated, chars) of the first character an alternative can start with"""
    if not len(seq):
        raise Shape('empty alternative in the comment rule')
    op, av = seq[0]
    if op is sre_c.LITERAL:
        return (False, [chr(av)])
    if op is sre_c.NOT_LITERAL:
        return (True, [chr(av)])
    if op is sre_c.IN:
        neg, chars = False, []
        for o2, a2 in av:
            if o2 is sre_c.NEGATE:
                neg = True
            elif o2 is sre_c.LITERAL:
                chars.append(chr(a2))
            elif o2 is sre_c.RANGE and a2[1] - a2[0] < 128:
                chars.extend(chr(c) for c in range(a2[0], a2[1] + 1))
            else:
                raise Shape('unsupported class item %r in the comment rule' % (o2,))
        seen = []
        for c in chars:
            if c not in seen:
                seen.append(c)
        return (neg, seen)
    if op is sre_c.SUBPATTERN:
        return _first_set(av[3])
    if op is sre_c.MAX_REPEAT and av[0] >= 1:
        return _first_set(av[2])
    if op is sre_c.BRANCH:
        sets = [_first_set(alt) for alt in av[1]]
        if all(not n for n, _ in sets):
            out = []
            for _, cs in sets:
                for c in cs:
                    if c not in out:
                        out.append(c)
            return (False, out)
        raise Shape('nested alternation with a negated class in the comment rule')
    raise Shape('unsupported first item %r in an alternative of the comment rule' % (op,))


def repetition_alternatives(seq):
    """first-character sets of the alternatives of the first repeated alternation in the regex
    ( ... (A|B|C)* ... ); [] when the regex has no repeated alternation"""
    for op, av in seq:
        if op in (sre_c.MAX_REPEAT, sre_c.MIN_REPEAT):
            body = av[2]
            while len(body) == 1 and body[0][0] is sre_c.SUBPATTERN:
                body = body[0][1][3]
            if len(body) == 1 and body[0][0] is sre_c.BRANCH:
                return [_first_set(alt) for alt in body[0][1][1]]
            if len(body) == 1 and body[0][0] is sre_c.IN and av[1] > 1:
                continue
            r = repetition_alternatives(body)
            if r:
                return r
        elif op is sre_c.SUBPATTERN:
            r = repetition_alternatives(av[3])
            if r:
                return r
    return []


# ----------------------------------------------------------------------------------- rule bodies

def _is_attr_chain(node, names):
    """node is  names[0].names[1]....  (Name then Attributes)"""
    for nm in reversed(names[1:]):
        if not (isinstance(node, ast.Attribute) and node.attr == nm):
            return False
        node = node.value
    return isinstance(node, ast.Name) and node.id == names[0]


def _is_count_nl(node, t):
    # t.value.count('\n')
    return (isinstance(node, ast.Call) and isinstance(node.func, ast.Attribute) and node.func.attr == 'count'
            and _is_attr_chain(node.func.value, [t, 'value']) and len(node.args) == 1
            and isinstance(node.args[0], ast.Constant) and node.args[0].value == '\n')


def _is_len_value(node, t):
    return (isinstance(node, ast.Call) and isinstance(node.func, ast.Name) and node.func.id == 'len'
            and len(node.args) == 1 and _is_attr_chain(node.args[0], [t, 'value']))


def analyse_rule(fn, seq):
    """flags of a t_* function: countsNl, setsEndLine, setsEndPos, returnsTok, and for t_ID how keywords are found"""
    args = [a.arg for a in fn.args.args]
    if len(args) != 2:
        raise Shape('%s: expected (self, t)' % fn.name)
    t = args[1]
    body = list(fn.body)
    if not (body and isinstance(body[0], ast.Expr) and isinstance(body[0].value, ast.Constant)
            and isinstance(body[0].value.value, str)):
        raise Shape('%s: no regex docstring' % fn.name)
    body = body[1:]
    counts = False
    sets_end_line = False
    sets_end_pos = False
    returns = False
    id_mode = None
    upper_var = None
    for st in body:
        if isinstance(st, ast.AugAssign) and isinstance(st.op, ast.Add) and _is_attr_chain(st.target, [t, 'lexer', 'lineno']):
            if _is_count_nl(st.value, t) or (_is_len_value(st.value, t) and only_newlines(seq)):
                counts = True
            else:
                raise Shape('%s: unrecognised line-number update' % fn.name)
        elif isinstance(st, ast.Assign) and len(st.targets) == 1 and _is_attr_chain(st.targets[0], [t, 'endlineno']):
            if _is_attr_chain(st.value, [t, 'lexer', 'lineno']):
                # correct only when the counter has already been advanced (or is never advanced) at this point
                sets_end_line = True if counts else 'early'
            else:
                raise Shape('%s: unrecognised endlineno assignment' % fn.name)
        elif isinstance(st, ast.Assign) and len(st.targets) == 1 and _is_attr_chain(st.targets[0], [t, 'endlexpos']):
            v = st.value
            if (isinstance(v, ast.BinOp) and isinstance(v.op, ast.Add) and _is_attr_chain(v.left, [t, 'lexpos'])
                    and _is_len_value(v.right, t)):
                sets_end_pos = True
            else:
                raise Shape('%s: unrecognised endlexpos assignment' % fn.name)
        elif isinstance(st, ast.Return):
            if st.value is None:
                returns = False
            elif isinstance(st.value, ast.Name) and st.value.id == t:
                returns = True
            else:
                raise Shape('%s: unrecognised return value' % fn.name)
            break
        elif fn.name == 't_ID' and isinstance(st, ast.Assign) and len(st.targets) == 1 \
                and isinstance(st.targets[0], ast.Name):
            v = st.value
            if (isinstance(v, ast.Call) and isinstance(v.func, ast.Attribute) and v.func.attr == 'upper'
                    and not v.args and _is_attr_chain(v.func.value, [t, 'value'])):
                upper_var = st.targets[0].id
            elif _is_attr_chain(v, [t, 'value']):
                upper_var = ('raw', st.targets[0].id)
            else:
                raise Shape('t_ID: unrecognised assignment')
        elif fn.name == 't_ID' and isinstance(st, ast.If) and not st.orelse:
            # if <v> in self.keywords: t.type = <v>
            test = st.test
            if not (isinstance(test, ast.Compare) and len(test.ops) == 1 and isinstance(test.ops[0], ast.In)
                    and _is_attr_chain(test.comparators[0], [args[0], 'keywords'])):
                raise Shape('t_ID: unrecognised keyword test')
            if not (len(st.body) == 1 and isinstance(st.body[0], ast.Assign)
                    and _is_attr_chain(st.body[0].targets[0], [t, 'type'])):
                raise Shape('t_ID: unrecognised keyword re-typing')

            def kind(e):
                if isinstance(e, ast.Name) and e.id == upper_var:
                    return 'upper'
                if isinstance(e, ast.Name) and isinstance(upper_var, tuple) and e.id == upper_var[1]:
                    return 'raw'
                if _is_attr_chain(e, [t, 'value']):
                    return 'raw'
                if (isinstance(e, ast.Call) and isinstance(e.func, ast.Attribute) and e.func.attr == 'upper'
                        and _is_attr_chain(e.func.value, [t, 'value'])):
                    return 'upper'
                raise Shape('t_ID: unrecognised keyword expression')
            k1, k2 = kind(test.left), kind(st.body[0].value)
            if k1 != k2:
                raise Shape('t_ID: keyword test and re-typing use different spellings')
            id_mode = k1
        elif isinstance(st, ast.Pass):
            pass
        elif isinstance(st, ast.Expr) and isinstance(st.value, ast.Call) and 'logger' in ast.dump(st.value.func):
            pass
        else:
            raise Shape('%s: unrecognised statement %s' % (fn.name, ast.dump(st)[:80]))
    if sets_end_line == 'early':
        sets_end_line = not counts      # set before the counter is advanced: stale when the rule counts newlines
    return counts, bool(sets_end_line), sets_end_pos, returns, id_mode


# ----------------------------------------------------------------------------------- consumers

FIELDS = ('cardinality', 'operator', 'value')


def _consumers(tree, fname, recv='node'):
    """(file, function, field, normalised) for every accept_* handler reading a spelling-carrying field"""
    out = []
    for cls in [n for n in tree.body if isinstance(n, ast.ClassDef)]:
        for fn in [n for n in cls.body if isinstance(n, ast.FunctionDef)]:
            if recv not in [a.arg for a in fn.args.args]:
                continue
            parents = {}
            for p in ast.walk(fn):
                for c in ast.iter_child_nodes(p):
                    parents[c] = p
            uses = {}
            for n in ast.walk(fn):
                if isinstance(n, ast.Attribute) and isinstance(n.value, ast.Name) and n.value.id == recv \
                        and n.attr in FIELDS:
                    if n.attr == 'value' and fn.name != 'accept_BooleanNode':
                        continue
                    uses.setdefault(n.attr, []).append(_normalised(n, parents))
            for field in sorted(uses):
                out.append((fname, '%s.%s' % (cls.name, fn.name), field, all(uses[field])))
    return out


def _normalised(n, parents):
    """is the attribute read only through  <attr>.lower() / .upper()  (optionally through str(...)) ?"""
    p = parents.get(n)
    # str(node.value).upper()
    if isinstance(p, ast.Call) and isinstance(p.func, ast.Name) and p.func.id == 'str' and p.args == [n]:
        n, p = p, parents.get(p)
    if isinstance(p, ast.Attribute) and p.value is n and p.attr in ('lower', 'upper'):
        pp = parents.get(p)
        return isinstance(pp, ast.Call) and pp.func is p and not pp.args
    if isinstance(p, ast.Assign) and n in p.targets:
        return True      # a store, not a read
    return False


# the fourth spelling-carrying field: the grammar stores the keyword `self` in its source spelling where an
# instance name is expected (`instance_name : variable_name | SELF`): relate / unrelate (from_, to_, using_) and delete
NAME_FIELDS = ('from_variable_name', 'to_variable_name', 'using_variable_name')
NAME_FIELD_HANDLERS = {'variable_name': ('accept_DeleteNode',)}


def _self_normaliser(tree, fname):
    """does the file treat all spellings of `self` alike?  Either it never mentions the word (no special case at
    all), or it resolves instance names through a find_symbol that maps every spelling of `self` to the instance:
    prebuild.py: ActionPrebuilder.find_symbol starts with  if name.lower() == 'self': name = 'self'
    interpret.py: InstanceSymbolTable.find_symbol has      if name.lower() == 'self': return self.instance
                  and the walkers of instance-based actions install an InstanceSymbolTable"""
    def has_self_test(fn, want_body):
        for st in fn.body:
            if isinstance(st, ast.If) and ast.unparse(st.test) == "name.lower() == 'self'" and not st.orelse \
                    and len(st.body) == 1 and ast.unparse(st.body[0]) == want_body:
                return True
            if isinstance(st, (ast.Assign, ast.Return)) and 'find_symbol' in ast.unparse(st):
                return False            # the table is consulted before the spelling is normalised
        return False
    if not any(isinstance(n, ast.Constant) and isinstance(n.value, str) and n.value.lower() == 'self'
               for n in ast.walk(tree)):
        return True                     # the file never treats the word `self` specially: every spelling is just a name
    classes = {c.name: c for c in tree.body if isinstance(c, ast.ClassDef)}

    def method(cls, name):
        c = classes.get(cls)
        if c is None:
            return None
        for f in c.body:
            if isinstance(f, ast.FunctionDef) and f.name == name:
                return f
        return None
    if fname == 'prebuild.py':
        f = method('ActionPrebuilder', 'find_symbol')
        return f is not None and has_self_test(f, "name = 'self'")
    f = method('InstanceSymbolTable', 'find_symbol')
    if f is None or not has_self_test(f, 'return self.instance'):
        return False
    for w in ('OperationWalker', 'DerivedAttributeWalker'):
        init = method(w, '__init__')
        if init is None or not any(isinstance(st, ast.Assign) and ast.unparse(st.targets[0]) == 'self.symtab'
                                   and ast.unparse(st.value).startswith('InstanceSymbolTable(') for st in init.body):
            return False
    return True


def _name_consumers(tree, fname):
    """(file, handler, field, normalised) for every handler reading an instance-name field: normalised when every
    read is an argument of a `find_symbol` call and the file's find_symbol normalises the spelling of `self`"""
    file_ok = _self_normaliser(tree, fname)
    out = []
    for cls in [n for n in tree.body if isinstance(n, ast.ClassDef)]:
        for fn in [n for n in cls.body if isinstance(n, ast.FunctionDef)]:
            if 'node' not in [a.arg for a in fn.args.args]:
                continue
            parents = {}
            for p_ in ast.walk(fn):
                for c in ast.iter_child_nodes(p_):
                    parents[c] = p_
            uses = {}
            for n in ast.walk(fn):
                if not (isinstance(n, ast.Attribute) and isinstance(n.value, ast.Name) and n.value.id == 'node'):
                    continue
                if n.attr in NAME_FIELDS or (n.attr in NAME_FIELD_HANDLERS and fn.name in NAME_FIELD_HANDLERS[n.attr]):
                    par = parents.get(n)
                    if isinstance(par, ast.keyword):
                        par = parents.get(par)
                    ok = isinstance(par, ast.Call) and isinstance(par.func, ast.Attribute) \
                        and par.func.attr == 'find_symbol' and n is not par.func
                    uses.setdefault(n.attr, []).append(ok and file_ok)
            for field in sorted(uses):
                out.append((fname, '%s.%s' % (cls.name, fn.name), field, all(uses[field])))
    return out


REQUIRED = [
    ('interpret.py', 'ActionWalker.accept_BinaryOperationNode', 'operator'),
    ('interpret.py', 'ActionWalker.accept_UnaryOperationNode', 'operator'),
    ('interpret.py', 'ActionWalker.accept_BooleanNode', 'value'),
    ('prebuild.py', 'ActionPrebuilder.accept_BinaryOperationNode', 'operator'),
    ('prebuild.py', 'ActionPrebuilder.accept_UnaryOperationNode', 'operator'),
    ('prebuild.py', 'ActionPrebuilder.accept_BooleanNode', 'value'),
    ('prebuild.py', 'ActionPrebuilder.accept_SelectFromNode', 'cardinality'),
    ('prebuild.py', 'ActionPrebuilder.accept_SelectFromWhereNode', 'cardinality'),
    ('prebuild.py', 'ActionPrebuilder.accept_RelateNode', 'from_variable_name'),
    ('prebuild.py', 'ActionPrebuilder.accept_UnrelateNode', 'to_variable_name'),
    ('prebuild.py', 'ActionPrebuilder.accept_DeleteNode', 'variable_name'),
    ('interpret.py', 'ActionWalker.accept_RelateNode', 'from_variable_name'),
    ('interpret.py', 'ActionWalker.accept_DeleteNode', 'variable_name'),
]


def _many_properties(tree):
    """(class, normalised) for each `many` property of the node classes in oal.py"""
    out = []
    for cls in [n for n in tree.body if isinstance(n, ast.ClassDef)]:
        for fn in [n for n in cls.body if isinstance(n, ast.FunctionDef) and n.name == 'many']:
            parents = {}
            for p in ast.walk(fn):
                for c in ast.iter_child_nodes(p):
                    parents[c] = p
            uses = [_normalised(n, parents) for n in ast.walk(fn)
                    if isinstance(n, ast.Attribute) and isinstance(n.value, ast.Name) and n.value.id == 'self'
                    and n.attr == 'cardinality']
            # the comparison constant must be in the case the normalisation produces
            ok = bool(uses) and all(uses)
            for n in ast.walk(fn):
                if isinstance(n, ast.Compare):
                    for side in [n.left] + n.comparators:
                        if isinstance(side, ast.Constant) and isinstance(side.value, str):
                            other = [s for s in [n.left] + n.comparators if s is not side]
                            meth = [s.func.attr for s in other if isinstance(s, ast.Call)
                                    and isinstance(s.func, ast.Attribute)]
                            if meth and ((meth[0] == 'lower' and side.value != side.value.lower()) or
                                         (meth[0] == 'upper' and side.value != side.value.upper())):
                                ok = False
            out.append(('oal.py', '%s.many' % cls.name, 'cardinality', ok))
    return out


def _select_handlers_use(tree, fname):
    """interpreter select handlers: (handler, reads node.many or a normalised cardinality only)"""
    out = []
    for cls in [n for n in tree.body if isinstance(n, ast.ClassDef)]:
        for fn in [n for n in cls.body if isinstance(n, ast.FunctionDef)]:
            if not (fn.name.startswith('accept_Select') and fn.name.endswith('Node')) or 'Selected' in fn.name:
                continue
            parents = {}
            for p in ast.walk(fn):
                for c in ast.iter_child_nodes(p):
                    parents[c] = p
            raw = [n for n in ast.walk(fn) if isinstance(n, ast.Attribute) and isinstance(n.value, ast.Name)
                   and n.value.id == 'node' and n.attr == 'cardinality' and not _normalised(n, parents)]
            many = [n for n in ast.walk(fn) if isinstance(n, ast.Attribute) and isinstance(n.value, ast.Name)
                    and n.value.id == 'node' and n.attr == 'many']
            norm = [n for n in ast.walk(fn) if isinstance(n, ast.Attribute) and isinstance(n.value, ast.Name)
                    and n.value.id == 'node' and n.attr == 'cardinality' and _normalised(n, parents)]
            out.append((fname, '%s.%s' % (cls.name, fn.name), 'cardinality', (not raw) and bool(many or norm)))
    return out


# ----------------------------------------------------------------------------------- main

def generate(repo_dir):
    oal_path = os.path.join(repo_dir, 'bridgepoint', 'oal.py')
    with open(oal_path, encoding='utf-8') as f:
        src = f.read()
    tree = ast.parse(src)
    cls = [n for n in tree.body if isinstance(n, ast.ClassDef) and n.name == 'OALParser']
    if len(cls) != 1:
        raise Shape('class OALParser not found')
    cls = cls[0]
    keywords = tokens = ignore = None
    func_rules, str_rules = [], []
    for st in cls.body:
        if isinstance(st, ast.Assign) and len(st.targets) == 1 and isinstance(st.targets[0], ast.Name):
            nm = st.targets[0].id
            if nm == 'keywords':
                keywords = list(ast.literal_eval(st.value))
            elif nm == 'tokens':
                v = st.value
                if isinstance(v, ast.BinOp) and isinstance(v.op, ast.Add) and isinstance(v.left, ast.Name) \
                        and v.left.id == 'keywords':
                    tokens = list(keywords) + list(ast.literal_eval(v.right))
                else:
                    tokens = list(ast.literal_eval(v))
            elif nm == 't_ignore':
                ignore = ast.literal_eval(st.value)
            elif nm.startswith('t_'):
                if nm.startswith('t_ignore_') or nm in ('t_error', 't_eof'):
                    raise Shape('unsupported special rule %s' % nm)
                str_rules.append((nm[2:], ast.literal_eval(st.value)))
        elif isinstance(st, ast.FunctionDef) and st.name.startswith('t_'):
            if st.decorator_list:
                raise Shape('%s: decorated lexer rule' % st.name)
            func_rules.append(st)
    if keywords is None or tokens is None or ignore is None:
        raise Shape('keywords / tokens / t_ignore not found')
    if not all(isinstance(k, str) and k == k.upper() and k.isascii() for k in keywords):
        raise Shape('keywords are expected to be upper-case ASCII words')
    # lex.lex(...) / yacc.yacc(...) must be called with the keyword arguments the model knows, written out: the regex
    # flags (PLY default: re.VERBOSE), the module the rules are taken from, the start state ... can all be changed
    # through arguments, and `*args` / `**opts` would change them without a trace in the generated table
    n_lex = 0
    for n in ast.walk(cls):
        if not (isinstance(n, ast.Call) and isinstance(n.func, ast.Attribute) and isinstance(n.func.value, ast.Name)):
            continue
        callee = '%s.%s' % (n.func.value.id, n.func.attr)
        if callee not in CALL_KEYWORDS:
            continue
        if n.args:
            raise Shape('%s called with positional / starred arguments' % callee)
        for kw in n.keywords:
            if kw.arg is None:
                raise Shape('%s called with ** arguments' % callee)
            if kw.arg not in CALL_KEYWORDS[callee]:
                raise Shape('%s called with keyword %s (known: %s)' % (callee, kw.arg, ', '.join(sorted(CALL_KEYWORDS[callee]))))
        kws = {kw.arg: kw.value for kw in n.keywords}
        if not (isinstance(kws.get('module'), ast.Name) and kws['module'].id == 'self'):
            raise Shape('%s: module is not self' % callee)
        if callee == 'lex.lex':
            n_lex += 1
    if n_lex != 1:
        raise Shape('expected exactly one lex.lex(...) call in OALParser, found %d' % n_lex)
    # no other way to a lexer: `lex` is used as `lex.lex` only, nothing else of ply.lex is called in the module
    for n in ast.walk(tree):
        if isinstance(n, ast.Attribute) and isinstance(n.value, ast.Name) and n.value.id == 'lex' and n.attr != 'lex':
            raise Shape('ply.lex is used for something else than lex.lex(...): lex.%s' % n.attr)
    has_error = False
    rules = []
    id_mode = None
    func_rules.sort(key=lambda f: f.lineno)
    for fn in func_rules:
        if fn.name == 't_error':
            # logger call; t.lexer.skip(1)
            calls = [s.value for s in fn.body if isinstance(s, ast.Expr) and isinstance(s.value, ast.Call)]
            skip = [c for c in calls if isinstance(c.func, ast.Attribute) and c.func.attr == 'skip']
            if not (len(skip) == 1 and len(skip[0].args) == 1 and isinstance(skip[0].args[0], ast.Constant)
                    and skip[0].args[0].value == 1):
                raise Shape('t_error does not skip exactly one character')
            if any(isinstance(s, (ast.Raise, ast.Return)) for s in ast.walk(fn)):
                raise Shape('t_error raises or returns')
            has_error = True
            continue
        if fn.name in ('t_eof',) or fn.name.startswith('t_ignore'):
            raise Shape('unsupported special rule %s' % fn.name)
        regex = ast.get_docstring(fn, clean=False)
        if regex is None:
            raise Shape('%s has no regex' % fn.name)
        seq = sre_parse.parse(regex, re.VERBOSE)
        counts, sets_line, sets_pos, returns, mode = analyse_rule(fn, seq)
        if fn.name == 't_ID':
            id_mode = mode
        name = fn.name[2:]
        if returns and name not in tokens:
            raise Shape('%s returns a token type that is not declared' % fn.name)
        rules.append(dict(name=name, regex=regex, lit=literal_of(seq), can_nl=can_match(seq, '\n'),
                          counts=counts, sets_line=sets_line, sets_pos=sets_pos, returns=returns,
                          alts=repetition_alternatives(seq) if name == 'COMMENT' else None))
    for name, regex in sorted(str_rules, key=lambda x: len(x[1]), reverse=True):
        seq = sre_parse.parse(regex, re.VERBOSE)
        rules.append(dict(name=name, regex=regex, lit=literal_of(seq), can_nl=can_match(seq, '\n'),
                          counts=False, sets_line=False, sets_pos=False, returns=True, alts=None))
    if not has_error:
        raise Shape('t_error not found')
    if id_mode is None:
        raise Shape('t_ID does not re-type keywords in a recognised way')
    for r in rules:
        if re.compile(r['regex'], re.VERBOSE).match(''):
            raise Shape('rule %s matches the empty string' % r['name'])
    comment = [r for r in rules if r['name'] == 'COMMENT']
    alts = comment[0]['alts'] if comment else []

    consumers = []
    consumers += _many_properties(tree)
    for fname in ('interpret.py', 'prebuild.py'):
        with open(os.path.join(repo_dir, 'bridgepoint', fname), encoding='utf-8') as f:
            t2 = ast.parse(f.read())
        got = _consumers(t2, fname)
        if fname == 'interpret.py':
            sel = _select_handlers_use(t2, fname)
            names = set((a, b, c) for a, b, c, _ in sel)
            got = [g for g in got if (g[0], g[1], g[2]) not in names] + sel
        consumers += got
        consumers += _name_consumers(t2, fname)
    consumers.sort()
    have = set((a, b, c) for a, b, c, _ in consumers)
    for req in REQUIRED:
        if req not in have:
            raise Shape('expected consumer %s.%s of %s not found' % req)
    if not [c for c in consumers if c[0] == 'interpret.py' and c[2] == 'cardinality']:
        raise Shape('no select handler reading the cardinality found in interpret.py')

    out = []
    w = out.append
    w('import PyxModel.Oal.Lex')
    w('import PyxModel.Regex')
    w('')
    w('/-! GENERATED by translator/gen_oallex.py from bridgepoint/oal.py, interpret.py, prebuild.py - do not edit.')
    w('    Lexer rule table in PLY matching order, keyword table, t_ignore, keyword recognition mode of t_ID,')
    w('    first-character sets of the alternatives in the COMMENT rule\'s repetition, and the readers of the')
    w('    spelling-carrying tree fields (cardinality / operator / boolean value) with "is it normalised". -/')
    w('namespace Gen.OalLex')
    w('open Pyx.OalLex')
    w('')
    w('def keywords : List (List Char) := [')
    w(',\n'.join('  %s' % lstr(k) for k in keywords))
    w(']')
    w('')
    w('def ignore : List Char := %s' % lstr(ignore))
    w('')
    w('/-- t_ID re-types a lexeme as keyword after upper-casing it (`false`: compares the raw lexeme) -/')
    w('def idUpper : Bool := %s' % lbool(id_mode == 'upper'))
    w('')
    w('def rules : List Rule := [')
    lines = []
    for r in rules:
        lines.append('  -- %s : %s\n  { name := %s, regex := %s,\n    lit := %s, canNl := %s, countsNl := %s, setsEndLine := %s, '
                     'setsEndPos := %s, returnsTok := %s }' % (
                         r['name'], lcomment(r['regex']), lstr(r['name']), lstr(r['regex']),
                         ('some ' + lstr(r['lit'])) if r['lit'] is not None else 'none', lbool(r['can_nl']),
                         lbool(r['counts']), lbool(r['sets_line']), lbool(r['sets_pos']), lbool(r['returns'])))
    w(',\n'.join(lines))
    w(']')
    w('')
    for r in rules:
        if not re.fullmatch(r'[A-Za-z_][A-Za-z0-9_]*', r['name']):
            raise SystemExit('gen_oallex: rule name %r is not an identifier' % r['name'])
        w('/-- `%s` as parsed by Python\'s own regex parser from the SOURCE text -/' % lcomment(r['regex']))
        w('def rx_%s : Pyx.Regex.Regex :=' % r['name'])
        w('  %s' % regex_ast.lean_term(regex_ast.to_ast(r['regex'])))
        w('')
    w('/-- the regex of every rule (same order as `rules`) -/')
    w('def rx : List Pyx.Regex.Regex := [')
    w(',\n'.join('  rx_%s' % r['name'] for r in rules))
    w(']')
    w('')
    w('def cfg : LexCfg := { rules := rules, keywords := keywords, ignore := ignore, idUpper := idUpper }')
    w('')
    w('/-- first-character sets of the alternatives inside the repetition of the COMMENT rule -/')
    w('def commentAlts : List CharSet := [')
    w(',\n'.join('  { neg := %s, chars := %s }' % (lbool(n), lstr(cs)) for n, cs in alts))
    w(']')
    w('')
    w('/-- readers of the keyword-spelling-carrying tree fields: (file, handler, field, read only case-normalised) -/')
    w('def consumers : List Consumer := [')
    w(',\n'.join('  { file := "%s", handler := "%s", field := "%s", normalised := %s }' % (a, b, c, lbool(d))
                 for a, b, c, d in consumers))
    w(']')
    w('')
    w('end Gen.OalLex')
    w('')
    return [('OalLex.lean', '\n'.join(out))]


if __name__ == '__main__':
    import sys
    for name, text in generate(sys.argv[1] if len(sys.argv) > 1 else '/repo'):
        sys.stdout.write(text)
