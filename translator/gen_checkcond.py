"""xtuml/consistency_check.py + bridgepoint/consistency_check.py -> lean/Gen/CheckCond.lean:
A tiny Python-expression → Lean translator, reading the source text with `ast` (the repository is never imported), for the
DECISIONS of the consistency check — the counting condition of check_link_integrity over `len(q_set)`, `link.conditional`,
`link.many`; the null test of check_uniqueness_constraint (`isnull = value is None; isnull |= (ty.upper() == 'UNIQUE_ID' and
not value)`); the exit status `sys.exit(num_errors > 0)` of BOTH command-line tools — and for the accumulation tail of `main`
of BOTH tools (everything between `error = 0` and `return error`) as a list of four possible statements (IR `MainStmt`);
one definition per function is demanded and nothing but the two creating bindings may touch opts / args / m before the checks.

Each is emitted as a Lean function by structural translation of the expression tree
(and / or / not / comparisons / integer literals / the named atoms); an expression outside that fragment,
or a function that no longer has the expected statement, raises (= broken tie).  Props/C11.lean proves
that the generated functions equal the ones the model uses.
"""
import ast
import os

OUTPUTS = ['CheckCond.lean']


class T(object):
    def __init__(self, atoms):
        self.atoms = atoms       # python source of an atom -> (lean term, 'bool' | 'nat' | 'optint')

    def expr(self, n):
        """returns (lean term, type)"""
        src = ast.unparse(n)
        if src in self.atoms:
            return self.atoms[src]
        if isinstance(n, ast.Constant) and isinstance(n.value, int) and not isinstance(n.value, bool):
            return (str(n.value), 'nat')
        if isinstance(n, ast.BoolOp):
            op = ' && ' if isinstance(n.op, ast.And) else ' || '
            parts = [self.boolean(v) for v in n.values]
            return ('(' + op.join(parts) + ')', 'bool')
        if isinstance(n, ast.UnaryOp) and isinstance(n.op, ast.Not):
            return ('(!' + self.boolean(n.operand) + ')', 'bool')
        if isinstance(n, ast.Compare) and len(n.ops) == 1:
            l, lt = self.expr(n.left)
            r, rt = self.expr(n.comparators[0])
            sym = {ast.Lt: '<', ast.Gt: '>', ast.LtE: '≤', ast.GtE: '≥', ast.Eq: '=', ast.NotEq: '≠'}.get(type(n.ops[0]))
            if sym is None or lt != 'nat' or rt != 'nat':
                raise ValueError('unsupported comparison: %s' % src)
            return ('decide (%s %s %s)' % (l, sym, r), 'bool')
        raise ValueError('expression outside the translated fragment: %s' % src)

    def boolean(self, n):
        t, ty = self.expr(n)
        if ty == 'bool':
            return t
        if ty == 'nat':          # Python truthiness of an integer
            return '(decide (%s ≠ 0))' % t
        if ty == 'optint':       # truthiness of a value that is None or an integer
            return '(decide (%s ≠ none ∧ %s ≠ some 0))' % (t, t)
        raise ValueError('no truthiness for %s' % ast.unparse(n))


def _func(tree, name):
    found = [n for n in ast.walk(tree) if isinstance(n, (ast.FunctionDef, ast.AsyncFunctionDef)) and n.name == name]
    top = [n for n in tree.body if isinstance(n, ast.FunctionDef) and n.name == name]
    if len(found) != 1 or len(top) != 1:
        # Python runs the LAST definition of a name; a second one (later in the file, under an `if`, in a class) would make
        # the translated text differ from the executed one
        raise ValueError('function %s: expected exactly one definition at module level, found %d (%d anywhere)'
                         % (name, len(top), len(found)))
    return top[0]


_MAIN_STMTS = {
    'for rel_id in opts.rel_ids:\n    error += xtuml.check_association_integrity(m, rel_id)': '.forRels',
    'if not opts.rel_ids:\n    error += xtuml.check_association_integrity(m)': '.ifNoRels',
    'for kind in opts.kinds:\n    error += xtuml.check_uniqueness_constraint(m, kind)': '.forKinds',
    'if not opts.kinds:\n    error += xtuml.check_uniqueness_constraint(m)': '.ifNoKinds',
}


def _main_shape(tree, what):
    """the tail of `main`: everything between `error = 0` and the final `return error` must be one of the four
    accumulation statements (in any order and number: the emitted list is what the theorem is about)"""
    f = _func(tree, 'main')
    srcs = [ast.unparse(st) for st in f.body]
    if 'error = 0' not in srcs or srcs[-1] != 'return error':
        raise ValueError('%s main: `error = 0 ... return error` not found' % what)
    tail = srcs[srcs.index('error = 0') + 1:-1]
    out = []
    for st in tail:
        if st not in _MAIN_STMTS:
            raise ValueError('%s main: statement outside the translated fragment: %s' % (what, st))
        out.append(_MAIN_STMTS[st])
    # nothing before `error = 0` may touch the options, the metamodel or the error count, except the two bindings that
    # create them (once each)
    allowed = []
    for st in f.body[:srcs.index('error = 0')]:
        for n in ast.walk(st):
            if isinstance(n, (ast.Assign, ast.AugAssign, ast.Delete)):
                tg = n.targets if isinstance(n, (ast.Assign, ast.Delete)) else [n.target]
                for t in tg:
                    tx = ast.unparse(t)
                    if ast.unparse(n) in ('m = loader.build_metamodel()', 'opts, args = parser.parse_args(args)'):
                        allowed.append(ast.unparse(n))
                        continue
                    if 'opts.' in tx or tx in ('error', 'opts', 'args', 'm', 'xtuml', '(opts, args)') or tx.startswith('xtuml.'):
                        raise ValueError('%s main: options / error count modified before the checks: %s' % (what, ast.unparse(n)))
    if sorted(allowed) != sorted(['opts, args = parser.parse_args(args)', 'm = loader.build_metamodel()']):
        raise ValueError('%s main: expected one `(opts, args) = parser.parse_args(args)` and one `m = loader.build_metamodel()`, '
                         'found %s' % (what, allowed))
    return '[' + ', '.join(out) + ']'


def _exit_expr(tree, what):
    exits = [n for n in ast.walk(tree) if isinstance(n, ast.Call) and ast.unparse(n.func) == 'sys.exit'
             and n.args and 'num_errors' in ast.unparse(n.args[0])]
    if len(exits) != 1:
        raise ValueError('%s __main__: sys.exit(num_errors …) not found' % what)
    blocks = [n for n in tree.body if isinstance(n, ast.If) and ast.unparse(n.test) == "__name__ == '__main__'"]
    if len(blocks) != 1 or [ast.unparse(x) for x in blocks[0].body][:1] != ['num_errors = main(sys.argv[1:])'] \
            or len(blocks[0].body) != 2 or exits[0] is not getattr(blocks[0].body[1], 'value', None):
        raise ValueError('%s __main__: not `num_errors = main(sys.argv[1:]); sys.exit(<expr>)`' % what)
    return T({'num_errors': ('errors', 'nat')}).boolean(exits[0].args[0])


def generate(repo_dir):
    src = open(os.path.join(repo_dir, 'xtuml', 'consistency_check.py')).read()
    tree = ast.parse(src)

    # --- check_link_integrity: the single `if` inside the `for inst in link.from_metaclass.select_many()` loop
    f = _func(tree, 'check_link_integrity')
    loops = [n for n in f.body if isinstance(n, ast.For)]
    if len(loops) != 1 or ast.unparse(loops[0].iter) != 'link.from_metaclass.select_many()':
        raise ValueError('check_link_integrity: unexpected loop')
    body = loops[0].body
    if not (isinstance(body[0], ast.Assign) and ast.unparse(body[0]) == 'q_set = list(link.navigate(inst))'):
        raise ValueError('check_link_integrity: partner list is no longer `list(link.navigate(inst))`')
    ifs = [n for n in body if isinstance(n, ast.If)]
    if len(ifs) != 1 or not any(isinstance(s, ast.AugAssign) and ast.unparse(s) == 'res += 1' for s in ifs[0].body):
        raise ValueError('check_link_integrity: unexpected counting statement')
    t1 = T({'len(q_set)': ('n', 'nat'), 'link.conditional': ('cond', 'bool'), 'link.many': ('many', 'bool')})
    violates = t1.boolean(ifs[0].test)

    # --- check_uniqueness_constraint: isnull
    f = _func(tree, 'check_uniqueness_constraint')
    assigns = [n for n in ast.walk(f) if isinstance(n, (ast.Assign, ast.AugAssign)) and
               isinstance(getattr(n, 'targets', [getattr(n, 'target', None)])[0] if isinstance(n, ast.Assign) else n.target, ast.Name) and
               (n.targets[0].id if isinstance(n, ast.Assign) else n.target.id) == 'isnull']
    if len(assigns) != 2 or not isinstance(assigns[0], ast.Assign) or not isinstance(assigns[1], ast.AugAssign) \
            or not isinstance(assigns[1].op, ast.BitOr):
        raise ValueError('check_uniqueness_constraint: unexpected null test')
    t2 = T({'value is None': ('decide (v = none)', 'bool'), "ty.upper() == 'UNIQUE_ID'": ('isUid', 'bool'),
            'value': ('v', 'optint')})
    isnull = '(%s || %s)' % (t2.boolean(assigns[0].value), t2.boolean(assigns[1].value))

    # --- main: fall-backs and exit status
    f = _func(tree, 'main')
    conds = [ast.unparse(n.test) for n in ast.walk(f) if isinstance(n, ast.If)]
    for want in ('not opts.rel_ids', 'not opts.kinds'):
        if want not in conds:
            raise ValueError('main: fall-back `if %s:` not found' % want)
    loops = [ast.unparse(n.iter) for n in ast.walk(f) if isinstance(n, ast.For)]
    for want in ('opts.rel_ids', 'opts.kinds'):
        if want not in loops:
            raise ValueError('main: loop over %s not found' % want)
    exit_nonzero = _exit_expr(tree, 'xtuml.consistency_check')
    main_x = _main_shape(tree, 'xtuml.consistency_check')
    # --- the second tool, bridgepoint/consistency_check.py: same two decisions
    bp = ast.parse(open(os.path.join(repo_dir, 'bridgepoint', 'consistency_check.py')).read())
    exit_nonzero_bp = _exit_expr(bp, 'bridgepoint.consistency_check')
    main_bp = _main_shape(bp, 'bridgepoint.consistency_check')

    text = '''/-
  GENERATED by translator/gen_checkcond.py from xtuml/consistency_check.py — do not edit.
  Structural translation of three Python expressions (see the generator's docstring).
-/
namespace Pyx.Gen.CheckCond

/-- `check_link_integrity`: the condition under which an instance is counted, over
    n = len(q_set), cond = link.conditional, many = link.many -/
def violates (cond many : Bool) (n : Nat) : Bool := %s

/-- `check_uniqueness_constraint`: the null test over v = value (none = None) and
    isUid = (ty.upper() == 'UNIQUE_ID') -/
def isNull (v : Option Int) (isUid : Bool) : Bool := %s

/-- `sys.exit(<this>)`: the process exit status is non-zero exactly when this holds -/
def exitNonZero (errors : Nat) : Bool := %s

/-- the same expression of bridgepoint/consistency_check.py -/
def exitNonZeroBp (errors : Nat) : Bool := %s

/-- the accumulation statements of `main` between `error = 0` and `return error`, in source order:
    forRels   = `for rel_id in opts.rel_ids: error += xtuml.check_association_integrity(m, rel_id)`
    ifNoRels  = `if not opts.rel_ids: error += xtuml.check_association_integrity(m)`
    forKinds  = `for kind in opts.kinds: error += xtuml.check_uniqueness_constraint(m, kind)`
    ifNoKinds = `if not opts.kinds: error += xtuml.check_uniqueness_constraint(m)` -/
inductive MainStmt where
  | forRels | ifNoRels | forKinds | ifNoKinds
  deriving DecidableEq, Repr

/-- xtuml/consistency_check.py -/
def mainXtuml : List MainStmt := %s

/-- bridgepoint/consistency_check.py -/
def mainBridgepoint : List MainStmt := %s

end Pyx.Gen.CheckCond
''' % (violates, isnull, exit_nonzero, exit_nonzero_bp, main_x, main_bp)
    return [('CheckCond.lean', text)]
