"""xtuml/meta.py, xtuml/tools.py -> lean/Gen/NewShape.lean:
Reads, with `ast` only, the statement structure of instance creation and of the id generators and emits it as
a small first-order IR:

  MetaClass.new     its three assignment loops, in source order.  Each loop: what it iterates over (the declared
                    attributes / `zip(self.attributes, args)` / `kwargs.items()`), whether the name is first
                    replaced by the declared attribute with the same upper-casing, where the value comes from
                    (`self.default_value(ty)` or the argument), the guard `name not in self.referential_attributes`
                    and what happens on either side of it (setattr / store in the local dict / nothing)
  IdGenerator       the statement lists of __init__, peek, next (save the current value, draw the next one from
                    readfunc, return the saved one), that __next__ delegates to next() and __iter__ returns self
  IntegerGenerator  the class attribute `_current` and `readfunc` (= self._current + <n>)
  UUIDGenerator     that `readfunc` is exactly `uuid.uuid4().int` (no seeded or pseudo-random source)
  MetaModel         that `__init__` stores its generator argument and that NO other statement of xtuml/ or
                    bridgepoint/ assigns an attribute named `id_generator` (no replacement, no per-class cache)

Statements are compared as syntax trees with the expected text where the IR does not parameterise them;
anything else raises (= broken tie).  Props/C19.lean proves that PyxModel/NewInst.lean (`newOne`, the integer
generator) equals a generic interpretation of this IR.
"""
import ast
import os
import re

OUTPUTS = ['NewShape.lean']


def _strip_doc(body):
    body = list(body)
    if body and isinstance(body[0], ast.Expr) and isinstance(getattr(body[0], 'value', None), ast.Constant) \
            and isinstance(body[0].value.value, str):
        body = body[1:]
    return body


def _d(node):
    return re.sub(r', ctx=(Load|Store|Del)\(\)', '', ast.dump(node))


def _dump(nodes):
    return [_d(n) for n in nodes]


def _is(stmts, src):
    return _dump(stmts) == _dump(ast.parse(src).body)


def _same(stmts, src, where):
    if not _is(stmts, src):
        raise ValueError('%s: statements outside the expected shape:\n%s\n-- expected --\n%s'
                         % (where, '\n'.join(ast.unparse(s) for s in stmts), src))


def _same_expr(node, src):
    return _d(node) == _d(ast.parse(src, mode='eval').body)


def _class(tree, cls):
    for n in tree.body:
        if isinstance(n, ast.ClassDef) and n.name == cls:
            return n
    raise ValueError('class %s not found' % cls)


def _method(tree, cls, name):
    for f in _class(tree, cls).body:
        if isinstance(f, ast.FunctionDef) and f.name == name:
            return f
    raise ValueError('%s.%s not found' % (cls, name))


# --------------------------------------------------------------------------- MetaClass.new

GUARD = 'name not in self.referential_attributes'


def _branch(stmts, where):
    if _is(stmts, 'setattr(inst, name, value)'):
        return '.setattr'
    if _is(stmts, 'value = self.default_value(ty)\nsetattr(inst, name, value)'):
        return '.setattrDefault'
    if _is(stmts, 'referential_attributes[name] = value'):
        return '.storeReferential'
    if not stmts:
        return '.nothing'
    raise ValueError('%s: branch outside the expected shape: %s' % (where, '; '.join(ast.unparse(s) for s in stmts)))


def _guarded(st, where):
    if not (isinstance(st, ast.If) and _same_expr(st.test, GUARD)):
        raise ValueError('%s: expected `if %s:`, found: %s' % (where, GUARD, ast.unparse(st)))
    return _branch(st.body, where), _branch(st.orelse, where)


def _new_loops(tree):
    f = _method(tree, 'MetaClass', 'new')
    body = _strip_doc(f.body)
    _same(body[:3], 'inst = self.clazz()\nself.storage.append(inst)\nreferential_attributes = dict()', 'MetaClass.new')
    loops = []
    rest = body[3:]
    while rest and isinstance(rest[0], ast.For) and not _same_expr(rest[0].iter, 'self.links.values()') \
            and not _same_expr(rest[0].iter, 'referential_attributes.items()'):
        lp = rest[0]
        rest = rest[1:]
        if lp.orelse:
            raise ValueError('MetaClass.new: loop with else')
        if _same_expr(lp.target, '(name, ty)') and _same_expr(lp.iter, 'self.attributes'):
            if len(lp.body) != 1:
                raise ValueError('MetaClass.new: defaults loop of unexpected shape')
            then, els = _guarded(lp.body[0], 'MetaClass.new defaults loop')
            loops.append(('.attributes', 'false', then, els))
        elif _same_expr(lp.target, '(attr, value)') and _same_expr(lp.iter, 'zip(self.attributes, args)'):
            if len(lp.body) != 2 or not _is(lp.body[:1], 'name, ty = attr'):
                raise ValueError('MetaClass.new: positional loop of unexpected shape')
            then, els = _guarded(lp.body[1], 'MetaClass.new positional loop')
            loops.append(('.zipAttributesArgs', 'false', then, els))
        elif _same_expr(lp.target, '(name, value)') and _same_expr(lp.iter, 'kwargs.items()'):
            b = list(lp.body)
            resolves = 'false'
            if len(b) == 2 and _is(b[:1], 'for attr_name in self.attribute_names:\n'
                                          '    if attr_name.upper() == name.upper():\n'
                                          '        name = attr_name\n        break'):
                resolves = 'true'
                b = b[1:]
            if len(b) != 1:
                raise ValueError('MetaClass.new: keyword loop of unexpected shape')
            then, els = _guarded(b[0], 'MetaClass.new keyword loop')
            loops.append(('.kwargs', resolves, then, els))
        else:
            raise ValueError('MetaClass.new: loop over %s outside the expected shape' % ast.unparse(lp.iter))
    # what follows the assignment loops (batch relate, warning loop) is the subject of Gen/RelateShape.lean
    if not rest or not _is(rest[:1], 'if not referential_attributes:\n    return inst'):
        raise ValueError('MetaClass.new: the assignment loops are not followed by `if not referential_attributes: return inst`')
    return loops


# --------------------------------------------------------------------------- generators

GSTMT = [('self._current = self.readfunc()', '.drawCurrent'), ('val = self._current', '.saveCurrent'),
         ('return self._current', '.returnCurrent'), ('return val', '.returnSaved')]


def _gbody(f, where):
    out = []
    for st in _strip_doc(f.body):
        for src, name in GSTMT:
            if _is([st], src):
                out.append(name)
                break
        else:
            raise ValueError('%s: statement outside the expected shape: %s' % (where, ast.unparse(st)))
    return out


def _generators(tree):
    idg = _class(tree, 'IdGenerator')
    names = [n.name for n in idg.body if isinstance(n, ast.FunctionDef)]
    if sorted(names) != sorted(['__init__', 'peek', 'next', '__iter__', '__next__']):
        raise ValueError('IdGenerator: unexpected methods %s' % names)
    attrs = [n for n in idg.body if isinstance(n, ast.Assign)]
    if len(attrs) != 1 or not _is(attrs, 'readfunc = None'):
        raise ValueError('IdGenerator: unexpected class attributes')
    for m in ('__init__', 'peek', 'next', '__iter__', '__next__'):
        if [a.arg for a in _method(tree, 'IdGenerator', m).args.args] != ['self']:
            raise ValueError('IdGenerator.%s: unexpected parameters' % m)
    init = _gbody(_method(tree, 'IdGenerator', '__init__'), 'IdGenerator.__init__')
    peek = _gbody(_method(tree, 'IdGenerator', 'peek'), 'IdGenerator.peek')
    nxt = _gbody(_method(tree, 'IdGenerator', 'next'), 'IdGenerator.next')
    _same(_strip_doc(_method(tree, 'IdGenerator', '__iter__').body), 'return self', 'IdGenerator.__iter__')
    _same(_strip_doc(_method(tree, 'IdGenerator', '__next__').body), 'return self.next()', 'IdGenerator.__next__')
    ig = _class(tree, 'IntegerGenerator')
    if [b.id for b in ig.bases if isinstance(b, ast.Name)] != ['IdGenerator']:
        raise ValueError('IntegerGenerator: unexpected bases')
    members = [n for n in _strip_doc(ig.body)]
    if len(members) != 2 or not isinstance(members[0], ast.Assign) or not _same_expr(members[0].targets[0], '_current') \
            or not isinstance(members[0].value, ast.Constant) or not isinstance(members[0].value.value, int) \
            or isinstance(members[0].value.value, bool):
        raise ValueError('IntegerGenerator: expected `_current = <int>` and readfunc only')
    start = members[0].value.value
    rf = members[1]
    if not (isinstance(rf, ast.FunctionDef) and rf.name == 'readfunc' and [a.arg for a in rf.args.args] == ['self']):
        raise ValueError('IntegerGenerator: readfunc not found')
    rb = _strip_doc(rf.body)
    if not (len(rb) == 1 and isinstance(rb[0], ast.Return) and isinstance(rb[0].value, ast.BinOp)
            and isinstance(rb[0].value.op, ast.Add) and _same_expr(rb[0].value.left, 'self._current')
            and isinstance(rb[0].value.right, ast.Constant) and isinstance(rb[0].value.right.value, int)):
        raise ValueError('IntegerGenerator.readfunc: expected `return self._current + <int>`')
    inc = rb[0].value.right.value
    ug = _class(tree, 'UUIDGenerator')
    if [b.id for b in ug.bases if isinstance(b, ast.Name)] != ['IdGenerator']:
        raise ValueError('UUIDGenerator: unexpected bases')
    um = _strip_doc(ug.body)
    if not (len(um) == 1 and isinstance(um[0], ast.FunctionDef) and um[0].name == 'readfunc'
            and _is(_strip_doc(um[0].body), 'return uuid.uuid4().int')):
        raise ValueError('UUIDGenerator: readfunc is not exactly `return uuid.uuid4().int`')
    imports = [a.name for n in tree.body if isinstance(n, ast.Import) for a in n.names]
    if 'random' in imports:
        raise ValueError('xtuml/tools.py imports `random` (a seedable source) next to the id generators')
    return init, peek, nxt, start, inc


def _generator_binding(repo_dir, meta):
    """the metamodel's generator is bound once: `MetaModel.__init__` stores its argument (a UUIDGenerator when none is
    given) in `self.id_generator`, and no other statement of the library assigns an attribute named `id_generator`"""
    init = _method(meta, 'MetaModel', '__init__')
    _same(_strip_doc(init.body)[:1], 'if id_generator is None:\n    id_generator = xtuml.UUIDGenerator()', 'MetaModel.__init__')
    if not any(_is([st], 'self.id_generator = id_generator') for st in init.body):
        raise ValueError('MetaModel.__init__ does not store its id_generator argument')
    for pkg in ('xtuml', 'bridgepoint'):
        d = os.path.join(repo_dir, pkg)
        if not os.path.isdir(d):
            continue
        for fn in sorted(os.listdir(d)):
            if not fn.endswith('.py') or fn.startswith('__') and fn.endswith('tab.py'):
                continue
            tree = ast.parse(open(os.path.join(d, fn), encoding='utf-8').read())
            for node in ast.walk(tree):
                targets = []
                if isinstance(node, ast.Assign):
                    targets = node.targets
                elif isinstance(node, (ast.AugAssign, ast.AnnAssign)):
                    targets = [node.target]
                for t in targets:
                    for sub in ast.walk(t):
                        if isinstance(sub, ast.Attribute) and sub.attr == 'id_generator':
                            if pkg == 'xtuml' and fn == 'meta.py' and _is([node], 'self.id_generator = id_generator'):
                                continue
                            raise ValueError('%s/%s line %d assigns an attribute `id_generator` (%s): the metamodel\'s '
                                             'generator is replaced or cached outside MetaModel.__init__'
                                             % (pkg, fn, node.lineno, ast.unparse(node)))


HEADER = '''/-
  GENERATED by translator/gen_newshape.py from xtuml/meta.py (MetaClass.new) and xtuml/tools.py
  (IdGenerator, IntegerGenerator, UUIDGenerator) — do not edit.
  Props/C19.lean proves that PyxModel/NewInst.lean equals the generic interpretation of this IR.
-/
namespace Pyx.Gen.NewShape

/-- what an assignment loop of MetaClass.new iterates over -/
inductive Source where
  | attributes            -- for name, ty in self.attributes
  | zipAttributesArgs     -- for attr, value in zip(self.attributes, args): name, ty = attr
  | kwargs                -- for name, value in kwargs.items()
  deriving DecidableEq, Repr

/-- one side of `if name not in self.referential_attributes:` -/
inductive Branch where
  | setattr               -- setattr(inst, name, value)
  | setattrDefault        -- value = self.default_value(ty); setattr(inst, name, value)
  | storeReferential      -- referential_attributes[name] = value
  | nothing
  deriving DecidableEq, Repr

structure AssignLoop where
  source : Source
  resolvesName : Bool     -- the name is first replaced by the declared attribute with the same upper-casing
  whenNotReferential : Branch
  whenReferential : Branch
  deriving Repr

/-- statements of the IdGenerator methods -/
inductive GStmt where
  | drawCurrent           -- self._current = self.readfunc()
  | saveCurrent           -- val = self._current
  | returnCurrent         -- return self._current
  | returnSaved           -- return val
  deriving DecidableEq, Repr

'''


def generate(repo_dir):
    meta = ast.parse(open(os.path.join(repo_dir, 'xtuml', 'meta.py'), encoding='utf-8').read())
    tools = ast.parse(open(os.path.join(repo_dir, 'xtuml', 'tools.py'), encoding='utf-8').read())
    loops = _new_loops(meta)
    init, peek, nxt, start, inc = _generators(tools)
    _generator_binding(repo_dir, meta)
    out = [HEADER]
    out.append('/-- the assignment loops of MetaClass.new, in source order -/')
    out.append('def newLoops : List AssignLoop :=\n  [ ' + ',\n    '.join(
        '{ source := %s, resolvesName := %s, whenNotReferential := %s, whenReferential := %s }' % l for l in loops) + ' ]\n')
    out.append('def genInit : List GStmt := [ %s ]\n' % ', '.join(init))
    out.append('def genPeek : List GStmt := [ %s ]\n' % ', '.join(peek))
    out.append('def genNext : List GStmt := [ %s ]\n' % ', '.join(nxt))
    out.append('/-- IntegerGenerator: `_current = intStart` (class attribute), `readfunc = self._current + intIncrement` -/')
    out.append('def intStart : Int := %d\n' % start)
    out.append('def intIncrement : Int := %d\n' % inc)
    out.append('/-- UUIDGenerator.readfunc is exactly `uuid.uuid4().int` (checked by the generator) -/')
    out.append('def uuidReadfuncIsUuid4 : Bool := true\n')
    out.append('/-- no statement of xtuml/ or bridgepoint/ assigns an attribute `id_generator` except MetaModel.__init__')
    out.append('    (checked by the generator): the generator of a metamodel is neither replaced nor cached elsewhere -/')
    out.append('def idGeneratorBoundOnlyInInit : Bool := true\n')
    out.append('end Pyx.Gen.NewShape\n')
    return [('NewShape.lean', '\n'.join(out))]


if __name__ == '__main__':
    import sys
    for name, text in generate(sys.argv[1] if len(sys.argv) > 1 else '/repo'):
        sys.stdout.write(text)
