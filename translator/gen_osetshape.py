"""xtuml/tools.py -> lean/Gen/OSetShape.lean:
Reads `class OrderedSet` with `ast` only.  The cell-level methods are emitted as statement lists over the
`[key, prev, next]` cells (an IR that is nearly one-to-one with the source):

  add, discard            the guard on `self.map`, then the statements: bind a local cell variable to a field of
                          another, allocate a new cell `[key, a, b]` into a chain of targets, pop the key's cell from
                          the map into local variables, write a field of a cell
  __iter__, __reversed__  the field of the sentinel the walk starts from and the field that advances it

The remaining methods (__init__, pop, __len__, __contains__, __repr__, __eq__) and the SET of methods the class
defines are compared exactly with the expected text (everything else — in particular every set-algebra operator —
must come from collections.abc.MutableSet, whose mixins the list-level model composes).  Anything else raises
(= broken tie).  Props/C17.lean proves that PyxModel/OSetPtr.lean's add / discard / iter / reversed / iterRem equal
a generic interpretation of this IR.
"""
import ast
import os
import re

OUTPUTS = ['OSetShape.lean']


def _strip_doc(body):
    body = list(body)
    if body and isinstance(body[0], ast.Expr) and isinstance(getattr(body[0], 'value', None), ast.Constant) \
            and isinstance(body[0].value.value, str):
        body = body[1:]
    return body


def _d(node):
    return re.sub(r', ctx=(Load|Store|Del)\(\)', '', ast.dump(node))


def _is(stmts, src):
    return [_d(n) for n in stmts] == [_d(n) for n in ast.parse(src).body]


def _same(stmts, src, where):
    if not _is(stmts, src):
        raise ValueError('%s: statements outside the expected shape:\n%s\n-- expected --\n%s'
                         % (where, '\n'.join(ast.unparse(s) for s in stmts), src))


def _same_expr(node, src):
    return _d(node) == _d(ast.parse(src, mode='eval').body)


VARS = {'end': '.endV', 'curr': '.curr', 'prev': '.prev', 'next_': '.next'}


def _var(node, where):
    if isinstance(node, ast.Name) and node.id in VARS:
        return VARS[node.id]
    raise ValueError('%s: unknown cell variable: %s' % (where, ast.unparse(node)))


def _field(node, where):
    """v[i] with i in {1, 2}"""
    if isinstance(node, ast.Subscript) and isinstance(node.slice, ast.Constant) and node.slice.value in (1, 2):
        return _var(node.value, where), node.slice.value
    raise ValueError('%s: expected <cell>[1] or <cell>[2]: %s' % (where, ast.unparse(node)))


def _cexpr(node, where):
    if isinstance(node, ast.Name):
        return '(.var %s)' % _var(node, where)
    v, i = _field(node, where)
    return '(.field %s %d)' % (v, i)


def _cstmts(stmts, where):
    out = []
    for st in stmts:
        if _is([st], 'end = self.end'):
            continue                                    # `end` is the sentinel throughout
        if _is([st], 'key, prev, next_ = self.map.pop(key)'):
            out.append('.popInto .prev .next')
            continue
        if isinstance(st, ast.Assign) and isinstance(st.value, ast.List):
            elts = st.value.elts
            if len(elts) != 3 or not _same_expr(elts[0], 'key'):
                raise ValueError('%s: a new cell is not [key, a, b]: %s' % (where, ast.unparse(st)))
            targets = []
            for t in st.targets:
                if _same_expr(t, 'self.map[key]'):
                    targets.append('.mapAtKey')
                else:
                    v, i = _field(t, where)
                    targets.append('(.field %s %d)' % (v, i))
            out.append('.allocInto %s %s [%s]' % (_cexpr(elts[1], where), _cexpr(elts[2], where), ', '.join(targets)))
            continue
        if isinstance(st, ast.Assign) and len(st.targets) == 1 and isinstance(st.targets[0], ast.Name):
            out.append('.bind %s %s' % (_var(st.targets[0], where), _cexpr(st.value, where)))
            continue
        if isinstance(st, ast.Assign) and len(st.targets) == 1 and isinstance(st.targets[0], ast.Subscript):
            v, i = _field(st.targets[0], where)
            out.append('.setField %s %d %s' % (v, i, _cexpr(st.value, where)))
            continue
        raise ValueError('%s: statement outside the expected shape: %s' % (where, ast.unparse(st)))
    return out


def _guarded(f, where):
    body = _strip_doc(f.body)
    if [a.arg for a in f.args.args] != ['self', 'key'] or len(body) != 1 or not isinstance(body[0], ast.If) or body[0].orelse:
        raise ValueError('%s: expected a single guarded block' % where)
    if _same_expr(body[0].test, 'key in self.map'):
        present = 'true'
    elif _same_expr(body[0].test, 'key not in self.map'):
        present = 'false'
    else:
        raise ValueError('%s: guard outside the expected shape: %s' % (where, ast.unparse(body[0].test)))
    return present, _cstmts(body[0].body, where)


def _walk(f, where):
    body = _strip_doc(f.body)
    if [a.arg for a in f.args.args] != ['self'] or len(body) != 3 or not _is(body[:1], 'end = self.end'):
        raise ValueError('%s: unexpected shape' % where)
    st = body[1]
    if not (isinstance(st, ast.Assign) and len(st.targets) == 1 and _same_expr(st.targets[0], 'curr')):
        raise ValueError('%s: expected `curr = end[i]`' % where)
    v, start = _field(st.value, where)
    if v != '.endV':
        raise ValueError('%s: the walk does not start at the sentinel' % where)
    wl = body[2]
    if not (isinstance(wl, ast.While) and _same_expr(wl.test, 'curr is not end') and not wl.orelse and len(wl.body) == 2
            and _is(wl.body[:1], 'yield curr[0]')):
        raise ValueError('%s: loop of unexpected shape' % where)
    adv = wl.body[1]
    if not (isinstance(adv, ast.Assign) and len(adv.targets) == 1 and _same_expr(adv.targets[0], 'curr')):
        raise ValueError('%s: expected `curr = curr[i]`' % where)
    v, step = _field(adv.value, where)
    if v != '.curr':
        raise ValueError('%s: the walk does not advance from the current cell' % where)
    return start, step


EXACT = {
    '__init__': "self.end = end = []\nend += [None, end, end]\nself.map = {}\nif iterable is not None:\n    self |= iterable",
    'pop': "if not self:\n    raise KeyError('set is empty')\nif last:\n    key = self.end[1][0]\nelse:\n    key = self.end[2][0]\n"
           "self.discard(key)\nreturn key",
    '__len__': 'return len(self.map)',
    '__contains__': 'return key in self.map',
    '__repr__': "if not self:\n    return '%s()' % (self.__class__.__name__,)\n"
                "return '%s(%r)' % (self.__class__.__name__, list(self))",
    '__eq__': "if not isinstance(other, OrderedSet):\n    return self == OrderedSet(iter(other))\n"
              "if not len(self) == len(other):\n    return False\nreturn list(self) == list(other)",
}

HEADER = '''/-
  GENERATED by translator/gen_osetshape.py from xtuml/tools.py (class OrderedSet) — do not edit.
  Props/C17.lean proves that PyxModel/OSetPtr.lean equals the generic interpretation of this IR.
-/
namespace Pyx.Gen.OSetShape

/-- local variables holding cells; `endV` is the sentinel `self.end` -/
inductive CVar where
  | endV | curr | prev | next
  deriving DecidableEq, Repr

/-- a cell, or field 1 (prev) / 2 (next) of a cell -/
inductive CExpr where
  | var (v : CVar)
  | field (v : CVar) (i : Nat)
  deriving Repr

inductive Place where
  | field (v : CVar) (i : Nat)
  | mapAtKey                                  -- self.map[key]
  deriving Repr

inductive CStmt where
  | bind (v : CVar) (e : CExpr)                               -- v = e
  | allocInto (f1 f2 : CExpr) (targets : List Place)          -- t1 = t2 = … = [key, f1, f2]   (assigned left to right)
  | popInto (p n : CVar)                                      -- key, p, n = self.map.pop(key)
  | setField (v : CVar) (i : Nat) (e : CExpr)                 -- v[i] = e
  deriving Repr

/-- `if key [not] in self.map: <body>` -/
structure Guarded where
  whenPresent : Bool
  body : List CStmt
  deriving Repr

/-- `curr = end[startField]; while curr is not end: yield curr[0]; curr = curr[stepField]` -/
structure WalkShape where
  startField : Nat
  stepField : Nat
  deriving Repr

'''


def generate(repo_dir):
    tree = ast.parse(open(os.path.join(repo_dir, 'xtuml', 'tools.py'), encoding='utf-8').read())
    cls = [n for n in tree.body if isinstance(n, ast.ClassDef) and n.name == 'OrderedSet']
    if len(cls) != 1:
        raise ValueError('class OrderedSet not found')
    cls = cls[0]
    if [ast.unparse(b) for b in cls.bases] != ['collections.abc.MutableSet']:
        raise ValueError('OrderedSet: unexpected bases %s' % [ast.unparse(b) for b in cls.bases])
    methods = {n.name: n for n in _strip_doc(cls.body) if isinstance(n, ast.FunctionDef)}
    others = [n for n in _strip_doc(cls.body) if not isinstance(n, ast.FunctionDef)]
    if others:
        raise ValueError('OrderedSet: unexpected class-level statements: %s' % [ast.unparse(o) for o in others])
    want = ['__init__', 'add', 'discard', 'pop', '__len__', '__contains__', '__iter__', '__reversed__', '__repr__', '__eq__']
    if sorted(methods) != sorted(want):
        raise ValueError('OrderedSet defines the methods %s, expected exactly %s (everything else must come from '
                         'collections.abc.MutableSet)' % (sorted(methods), sorted(want)))
    for name, src in EXACT.items():
        _same(_strip_doc(methods[name].body), src, 'OrderedSet.' + name)
    if [a.arg for a in methods['pop'].args.args] != ['self', 'last'] or [ast.unparse(d) for d in methods['pop'].args.defaults] != ['True']:
        raise ValueError('OrderedSet.pop: unexpected parameters')
    add = _guarded(methods['add'], 'OrderedSet.add')
    dis = _guarded(methods['discard'], 'OrderedSet.discard')
    it = _walk(methods['__iter__'], 'OrderedSet.__iter__')
    rv = _walk(methods['__reversed__'], 'OrderedSet.__reversed__')
    out = [HEADER]
    out.append('def addProg : Guarded :=\n  { whenPresent := %s,\n    body := [ %s ] }\n' % (add[0], ',\n              '.join(add[1])))
    out.append('def discardProg : Guarded :=\n  { whenPresent := %s,\n    body := [ %s ] }\n' % (dis[0], ',\n              '.join(dis[1])))
    out.append('def iterShape : WalkShape := { startField := %d, stepField := %d }\n' % it)
    out.append('def reversedShape : WalkShape := { startField := %d, stepField := %d }\n' % rv)
    out.append('end Pyx.Gen.OSetShape\n')
    return [('OSetShape.lean', '\n'.join(out))]


if __name__ == '__main__':
    import sys
    for name, text in generate(sys.argv[1] if len(sys.argv) > 1 else '/repo'):
        sys.stdout.write(text)
