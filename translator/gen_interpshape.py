"""bridgepoint/interpret.py -> lean/Gen/InterpShape.lean:
Reads, with `ast` only, the STATEMENT STRUCTURE of the handlers of the OAL interpreter and emits it, one to one, as a
small first-order IR (a statement list per handler over named calls):

  ActionWalker.accept_<X>Node    for X in Body, Block, StatementList, Return, Break, Continue, Control, CreateObject,
                                 CreateObjectNoVariable, Delete, Relate, RelateUsing, Unrelate, UnrelateUsing, SelectFrom,
                                 SelectFromWhere, SelectRelated, SelectRelatedWhere, SelectedAccess, ForEach, If, ElIfList,
                                 ElIf, Else, While, Assignment, BinaryOperation, UnaryOperation:
                                 which child is accepted when (and whether its `.fget()` is taken), which node field names a
                                 symbol that is looked up / installed, the calls domain.new / select_many / select_any,
                                 xtuml.relate / unrelate (argument pairs, their order, the phrase with its ticks removed) /
                                 delete / navigate_one / navigate_many, enter / leave of scope and block, the control exception
                                 raised, which control exceptions are caught around which statements and what the handler
                                 does (pass / continue / break), `if node.<flag>` dispatch, the Python loops (`for x in
                                 <local>`, `for child in node.children`, `for step in self.accept(node.<child>)`, `while
                                 <call>`), the `where` closures, the operand evaluation order and the argument order of
                                 `ops[operator](...)` (the CONTENT of the two dict literals is Gen/InterpOps.lean)
  SymbolTable.find_symbol /      the order in which the blocks of the scope are searched (`for block in self.scope_head`),
  install_symbol / enter_block / what a hit does, where a new name goes (`self.scope_head[-1]`), which end of the scope
  leave_block / enter_scope      enter_block / leave_block work on (`append` / `pop`), what a Scope starts with

Every statement or expression outside the translated fragment raises (= broken tie).  Props/C04.lean proves that the clauses of
the reference semantics (PyxModel/Interp/Spec.lean) equal a generic interpretation (Proofs/InterpShape.lean) of this IR, so
swapping the two relate calls of accept_RelateUsingNode, dropping leave_block in a where closure, testing another node field than
`many`, evaluating the right operand first or catching ContinueException outside the loop changes the IR and breaks an equality
theorem before any test runs.
"""
import ast
import os

OUTPUTS = ['InterpShape.lean']

HANDLERS = ['BodyNode', 'BlockNode', 'StatementListNode', 'ReturnNode', 'BreakNode', 'ContinueNode', 'ControlNode',
            'CreateObjectNode', 'CreateObjectNoVariableNode', 'DeleteNode', 'RelateNode', 'RelateUsingNode',
            'UnrelateNode', 'UnrelateUsingNode', 'SelectFromNode', 'SelectFromWhereNode', 'SelectRelatedNode',
            'SelectRelatedWhereNode', 'SelectedAccessNode', 'ForEachNode', 'IfNode', 'ElIfListNode', 'ElIfNode',
            'ElseNode', 'WhileNode', 'AssignmentNode', 'BinaryOperationNode', 'UnaryOperationNode']

# handlers added later (kept in a second list so that `handlerNames` stays what it was)
HANDLERS2 = ['IntegerNode', 'RealNode', 'StringNode', 'BooleanNode', 'VariableAccessNode', 'FieldAccessNode',
             'NavigationStepNode', 'NavigationListNode']

EXC = {'ReturnException': '.returnExc', 'BreakException': '.breakExc', 'ContinueException': '.continueExc',
       'StopException': '.stopExc'}

SYMTAB0 = {'enter_scope': '.enterScope', 'leave_scope': '.leaveScope', 'enter_block': '.enterBlock',
           'leave_block': '.leaveBlock'}


class Shape(ValueError):
    pass


def _s(s):
    out = []
    for ch in s:
        o = ord(ch)
        if ch == '"':
            out.append('\\"')
        elif ch == '\\':
            out.append('\\\\')
        elif ch == '\n':
            out.append('\\n')
        elif 32 <= o < 127:
            out.append(ch)
        else:
            out.append('\\u{%x}' % o)
    return '"' + ''.join(out) + '"'


def _slist(items):
    return '[' + ', '.join(_s(i) for i in items) + ']'


def _method(tree, cls, name):
    for n in tree.body:
        if isinstance(n, ast.ClassDef) and n.name == cls:
            for f in n.body:
                if isinstance(f, ast.FunctionDef) and f.name == name:
                    return f
    raise Shape('%s.%s not found' % (cls, name))


def _strip_doc(body):
    body = list(body)
    if body and isinstance(body[0], ast.Expr) and isinstance(getattr(body[0], 'value', None), ast.Constant) \
            and isinstance(body[0].value.value, str):
        body = body[1:]
    return body


# --------------------------------------------------------------------------- expressions of a handler

class Handler(object):
    """translates the body of one accept_* method; `self.locals` = names bound so far (parameters of closures, assignment
    targets, loop variables), so that a reference to an unbound name is a broken tie"""

    def __init__(self, where):
        self.where = where
        self.locals = set()

    def fail(self, node, what='outside the translated fragment'):
        raise Shape('%s: %s: %s' % (self.where, what, ast.unparse(node) if isinstance(node, ast.AST) else node))

    def local(self, n):
        if isinstance(n, ast.Name) and n.id in self.locals:
            return n.id
        self.fail(n, 'expected a local variable')

    def node_field(self, n):
        """node.<f>"""
        if isinstance(n, ast.Attribute) and isinstance(n.value, ast.Name) and n.value.id == 'node':
            return n.attr
        return None

    def name(self, n):
        """a string handed on: node.<f> | node.<f>.replace("'", '') | '<literal>'"""
        f = self.node_field(n)
        if f is not None:
            return '(.field %s)' % _s(f)
        if isinstance(n, ast.Constant) and isinstance(n.value, str):
            return '(.lit %s)' % _s(n.value)
        if isinstance(n, ast.Call) and isinstance(n.func, ast.Attribute) and n.func.attr == 'replace' and not n.keywords \
                and self.node_field(n.func.value) is not None and len(n.args) == 2 \
                and all(isinstance(a, ast.Constant) for a in n.args) and [a.value for a in n.args] == ["'", '']:
            return '(.fieldNoTicks %s)' % _s(self.node_field(n.func.value))
        self.fail(n, 'expected node.<field>, node.<field>.replace("\'", \'\') or a string literal')

    def kwcall(self, n):
        """the calls with keyword arguments and the non-call right-hand sides of the literal / access handlers"""
        # node.<f>  |  node.<f>[1:-1]  |  node.<f>.upper() == '<S>'
        f = self.node_field(n)
        if f is not None:
            return '(.fieldVal %s)' % _s(f)
        if isinstance(n, ast.Subscript) and self.node_field(n.value) is not None and isinstance(n.slice, ast.Slice):
            sl = n.slice
            if sl.step is None and ast.unparse(sl) == '1:-1':
                return '(.stripFirstLast %s)' % _s(self.node_field(n.value))
            self.fail(n, 'slice')
        if isinstance(n, ast.Compare) and len(n.ops) == 1 and isinstance(n.ops[0], ast.Eq) and isinstance(n.left, ast.Call) \
                and isinstance(n.left.func, ast.Attribute) and n.left.func.attr in ('upper', 'lower') and not n.left.args \
                and not n.left.keywords and self.node_field(n.left.func.value) is not None \
                and isinstance(n.comparators[0], ast.Constant) and isinstance(n.comparators[0].value, str):
            return '(.%sEq %s %s)' % (n.left.func.attr, _s(self.node_field(n.left.func.value)), _s(n.comparators[0].value))
        if not isinstance(n, ast.Call):
            return None
        fn = ast.unparse(n.func)
        # property(fget=lambda: getattr(<h>, <name>), fset=lambda value: setattr(<h>, <name>, value))
        if fn == 'property' and not n.args and [k.arg for k in n.keywords] == ['fget', 'fset']:
            g, st = n.keywords[0].value, n.keywords[1].value
            if isinstance(g, ast.Lambda) and not g.args.args and isinstance(g.body, ast.Call) and ast.unparse(g.body.func) == 'getattr' \
                    and len(g.body.args) == 2 and isinstance(st, ast.Lambda) and [x.arg for x in st.args.args] == ['value'] \
                    and isinstance(st.body, ast.Call) and ast.unparse(st.body.func) == 'setattr' and len(st.body.args) == 3 \
                    and ast.unparse(st.body.args[2]) == 'value' and not g.body.keywords and not st.body.keywords:
                return '(.propertyAttr %s %s %s %s)' % (_s(self.local(g.body.args[0])), self.name(g.body.args[1]),
                                                       _s(self.local(st.body.args[0])), self.name(st.body.args[1]))
            self.fail(n, 'property(fget=, fset=)')
        # partial(self.symtab.find_symbol, <name>, default=<local>) / partial(self.symtab.install_symbol, <name>)
        if fn == 'partial' and n.args and ast.unparse(n.args[0]) == 'self.symtab.find_symbol' and len(n.args) == 2 \
                and [k.arg for k in n.keywords] == ['default'] and isinstance(n.keywords[0].value, ast.Name):
            return '(.partialFind %s %s)' % (self.name(n.args[1]), _s(self.local(n.keywords[0].value)))
        if fn == 'partial' and n.args and ast.unparse(n.args[0]) == 'self.symtab.install_symbol' and len(n.args) == 2 \
                and not n.keywords:
            return '(.partialInstall %s)' % self.name(n.args[1])
        return None

    def call(self, n):
        """one call expression -> Call"""
        kw = self.kwcall(n)
        if kw is not None:
            return kw
        if not isinstance(n, ast.Call) or n.keywords:
            self.fail(n, 'expected a call without keyword arguments')
        fn = ast.unparse(n.func)
        a = n.args
        # <call>.fget()
        if isinstance(n.func, ast.Attribute) and n.func.attr == 'fget' and not a:
            v = n.func.value
            if isinstance(v, ast.Name):
                return '(.fget %s)' % _s(self.local(v))
            if isinstance(v, ast.Call) and ast.unparse(v.func) == 'self.accept' and len(v.args) == 1 and not v.keywords \
                    and self.node_field(v.args[0]) is not None:
                return '(.acceptFget %s)' % _s(self.node_field(v.args[0]))
            self.fail(n)
        if isinstance(n.func, ast.Attribute) and n.func.attr == 'fset' and len(a) == 1 and isinstance(n.func.value, ast.Name):
            return '(.fset %s %s)' % (_s(self.local(n.func.value)), _s(self.local(a[0])))
        if fn == 'self.accept' and len(a) == 1:
            f = self.node_field(a[0])
            if f is not None:
                return '(.accept %s)' % _s(f)
            return '(.acceptLocal %s)' % _s(self.local(a[0]))
        if fn == 'self.symtab.find_symbol' and len(a) == 1:
            return '(.findSymbol %s)' % self.name(a[0])
        if fn == 'self.symtab.install_symbol' and len(a) == 2:
            if isinstance(a[1], ast.Name):
                return '(.installSymbol %s %s)' % (self.name(a[0]), _s(self.local(a[1])))
            if isinstance(a[1], ast.Call) and isinstance(a[1].func, ast.Name) and not a[1].keywords:
                return '(.installSymbolCall %s %s %s)' % (self.name(a[0]), _s(self.local(a[1].func)),
                                                          _slist([self.local(x) for x in a[1].args]))
            self.fail(n)
        if fn.startswith('self.symtab.') and fn[len('self.symtab.'):] in SYMTAB0 and not a:
            return SYMTAB0[fn[len('self.symtab.'):]]
        if fn == 'self.domain.new' and len(a) == 1:
            return '(.domainNew %s)' % self.name(a[0])
        if fn in ('self.domain.select_many', 'self.domain.select_any') and len(a) in (1, 2):
            wh = 'none' if len(a) == 1 else '(some %s)' % _s(self.local(a[1]))
            return '(.%s %s %s)' % ('selectMany' if fn.endswith('many') else 'selectAny', self.name(a[0]), wh)
        if fn in ('xtuml.relate', 'xtuml.unrelate') and len(a) == 4:
            return '(.%s %s %s %s %s)' % (fn[len('xtuml.'):], _s(self.local(a[0])), _s(self.local(a[1])),
                                         self.name(a[2]), self.name(a[3]))
        if fn == 'xtuml.delete' and len(a) == 1:
            return '(.delete %s)' % _s(self.local(a[0]))
        if fn in ('xtuml.navigate_many', 'xtuml.navigate_one') and len(a) == 1:
            return '(.%s %s)' % ('navigateMany' if fn.endswith('many') else 'navigateOne', _s(self.local(a[0])))
        if isinstance(n.func, ast.Name) and n.func.id in self.locals:
            return '(.callLocal %s %s)' % (_s(n.func.id), _slist([self.local(x) for x in a]))
        # node.<f>.lower()
        if isinstance(n.func, ast.Attribute) and n.func.attr == 'lower' and not a and self.node_field(n.func.value) is not None:
            return '(.lowerField %s)' % _s(self.node_field(n.func.value))
        # <table>[<key>](<args>)
        if isinstance(n.func, ast.Subscript) and isinstance(n.func.value, ast.Name) and isinstance(n.func.slice, ast.Name):
            return '(.applyOp %s %s %s)' % (_s(self.local(n.func.value)), _s(self.local(n.func.slice)),
                                           _slist([self.local(x) for x in a]))
        # property(lambda: <local>)
        if fn == 'property' and len(a) == 1 and isinstance(a[0], ast.Lambda) and not a[0].args.args \
                and isinstance(a[0].body, ast.Name):
            return '(.property %s)' % _s(self.local(a[0].body))
        # int(node.<f>) / float(node.<f>)
        if fn in ('int', 'float') and len(a) == 1 and self.node_field(a[0]) is not None:
            return '(.%s %s)' % ('intOf' if fn == 'int' else 'floatOf', _s(self.node_field(a[0])))
        # property(fget=lambda: getattr(<h>, <n>), fset=lambda value: setattr(<h>, <n>, value))
        if fn == 'property' and not a:
            self.fail(n)
        # lambda-free two-argument property(<fget local>, <fset local>)
        if fn == 'property' and len(a) == 2 and all(isinstance(x, ast.Name) for x in a):
            return '(.property2 %s %s)' % (_s(self.local(a[0])), _s(self.local(a[1])))
        self.fail(n, 'call outside the translated fragment')

    # ----------------------------------------------------------------------- statements
    # a translated statement is a string (no nested statements), or (head, [block, ...]) where a block is a list of
    # statements, or ('.tryExcept', body, [(exc, block), ...]); translation is eager and in source order (the set of
    # bound locals grows as the statements are read)

    def stmts(self, body):
        return [self.stmt(s) for s in body]

    def stmt(self, st):
        if isinstance(st, ast.Pass):
            return '.pass'
        if isinstance(st, ast.Continue):
            return '.continue_'
        if isinstance(st, ast.Break):
            return '.break_'
        if isinstance(st, ast.Raise):
            e = st.exc
            if st.cause is None and isinstance(e, ast.Call) and isinstance(e.func, ast.Name) and e.func.id in EXC \
                    and not e.args and not e.keywords:
                return '.raise %s' % EXC[e.func.id]
            self.fail(st, 'raise of something that is not a control exception')
        if isinstance(st, ast.Expr) and isinstance(st.value, ast.Yield) and st.value.value is not None:
            return '.yield_ %s' % self.call(st.value.value)
        if isinstance(st, ast.Return) and isinstance(st.value, ast.Lambda):
            lam = st.value
            b = lam.body
            if [x.arg for x in lam.args.args] == ['chain'] and isinstance(b, ast.Call) and ast.unparse(b.func) == 'chain.nav' \
                    and not b.keywords:
                return '.ret (.navClosure %s)' % ('[' + ', '.join(self.name(x) for x in b.args) + ']')
            self.fail(st, 'returned lambda')
        if isinstance(st, ast.Return):
            if isinstance(st.value, ast.Constant) and st.value.value is True:
                return '.retTrue'
            if st.value is None:
                self.fail(st, 'bare return')
            return '.ret %s' % self.call(st.value)
        if isinstance(st, ast.Expr):
            return '.expr %s' % self.call(st.value)
        if isinstance(st, ast.Assign):
            if len(st.targets) != 1:
                self.fail(st)
            t = st.targets[0]
            if isinstance(t, ast.Attribute) and ast.unparse(t) == 'self.return_value':
                return '.setReturnValue %s' % self.call(st.value)
            if not isinstance(t, ast.Name):
                self.fail(st, 'assignment target')
            if isinstance(st.value, ast.Dict):
                # the operator table: its CONTENT is Gen/InterpOps.lean (translator/gen_interpops.py)
                which = {'accept_BinaryOperationNode': 'binary', 'accept_UnaryOperationNode': 'unary'}.get(self.where)
                if which is None or t.id != 'ops':
                    self.fail(st, 'dict literal')
                c = '(.opsTable %s)' % _s(which)
            else:
                c = self.call(st.value)
            self.locals.add(t.id)
            return '.assign %s %s' % (_s(t.id), c)
        if isinstance(st, ast.If):
            test = st.test
            neg = False
            if isinstance(test, ast.UnaryOp) and isinstance(test.op, ast.Not):
                neg = True
                test = test.operand
            f = self.node_field(test)
            if f is not None and not neg:
                head = '.ifNode %s' % _s(f)
            elif isinstance(test, ast.Compare) and len(test.ops) == 1 and isinstance(test.ops[0], ast.IsNot) and not neg \
                    and self.node_field(test.left) is not None and isinstance(test.comparators[0], ast.Constant) \
                    and test.comparators[0].value is None:
                head = '.ifNodeNotNone %s' % _s(self.node_field(test.left))
            else:
                head = '.ifCall %s %s' % ('true' if neg else 'false', self.call(test))
            # a local bound in only one branch is treated as bound afterwards (Python would raise UnboundLocalError on the
            # other path; the generic interpreter reads it as `unset`)
            return (head, [self.stmts(st.body), self.stmts(st.orelse)])
        if isinstance(st, ast.Try):
            if st.orelse or st.finalbody:
                self.fail(st, 'try with else / finally')
            body = self.stmts(st.body)
            hs = []
            for h in st.handlers:
                if h.name is not None or not isinstance(h.type, ast.Name) or h.type.id not in EXC:
                    self.fail(st, 'except clause that is not `except <ControlException>:`')
                hs.append((EXC[h.type.id], self.stmts(h.body)))
            return ('.tryExcept', body, hs)
        if isinstance(st, ast.For):
            if st.orelse or not isinstance(st.target, ast.Name):
                self.fail(st, 'for loop')
            var = st.target.id
            it = st.iter
            if isinstance(it, ast.Name):
                head = '.forIn %s %s' % (_s(var), _s(self.local(it)))
            elif self.node_field(it) == 'children':
                head = '.forChildren %s' % _s(var)
            elif isinstance(it, ast.Call) and ast.unparse(it.func) == 'self.accept' and len(it.args) == 1 \
                    and not it.keywords and self.node_field(it.args[0]) is not None:
                head = '.forAccept %s %s' % (_s(var), _s(self.node_field(it.args[0])))
            else:
                self.fail(st, 'for loop over')
            self.locals.add(var)
            return (head, [self.stmts(st.body)])
        if isinstance(st, ast.While):
            if st.orelse:
                self.fail(st, 'while ... else')
            head = '.whileCall %s' % self.call(st.test)
            return (head, [self.stmts(st.body)])
        if isinstance(st, ast.FunctionDef):
            a = st.args
            if st.decorator_list or a.vararg or a.kwarg or a.kwonlyargs or a.defaults or len(a.args) != 1:
                self.fail(st, 'closure signature')
            param = a.args[0].arg
            saved = set(self.locals)
            self.locals.add(param)
            body = self.stmts(st.body)
            self.locals = saved
            self.locals.add(st.name)
            return ('.defClosure %s %s' % (_s(st.name), _s(param)), [body])
        self.fail(st, 'statement outside the translated fragment')


def _render_block(items, ind):
    if not items:
        return '[]'
    pad = ' ' * (ind + 2)
    return '[\n' + ',\n'.join(pad + _render(i, ind + 2) for i in items) + ' ]'


def _render(item, ind):
    if isinstance(item, str):
        return item
    if item[0] == '.tryExcept':
        pad = ' ' * (ind + 2)
        hs = ',\n'.join('%s(%s, %s)' % (pad, e, _render_block(b, ind + 2)) for e, b in item[2])
        return '.tryExcept %s [\n%s ]' % (_render_block(item[1], ind), hs)
    return '%s %s' % (item[0], ' '.join(_render_block(b, ind) for b in item[1]))


def _handler(tree, cls):
    name = 'accept_' + cls
    f = _method(tree, 'ActionWalker', name)
    a = f.args
    params = [x.arg for x in a.args]
    if params == ['self', 'node', 'default'] and [ast.unparse(d) for d in a.defaults] == ['None'] and not (
            a.vararg or a.kwarg or a.kwonlyargs or f.decorator_list):
        h = Handler(name)
        h.locals.add('default')       # a keyword parameter, None unless an index access hands a list down
    elif params != ['self', 'node'] or a.vararg or a.kwarg or a.kwonlyargs or a.defaults or f.decorator_list:
        raise Shape('%s: unexpected signature' % name)
    else:
        h = Handler(name)
    items = h.stmts(_strip_doc(f.body))
    return name, _render_block(items, 2)


# --------------------------------------------------------------------------- the symbol table

def _symtab(tree):
    """SymbolTable: each method must be exactly one of the recognised texts (after ast.unparse); what varies is recorded."""
    def src(cls, m):
        return [ast.unparse(s) for s in _strip_doc(_method(tree, cls, m).body)]
    out = {}
    if src('Scope', '__init__') != ['self.append(Block())']:
        raise Shape('Scope.__init__: %s' % src('Scope', '__init__'))
    out['scopeStartsWithOneBlock'] = 'true'
    head = _method(tree, 'SymbolTable', 'scope_head')
    hs = [ast.unparse(s) for s in _strip_doc(head.body)]
    if hs != ["if not len(self._scopes):\n    raise SymtabException('Out of scope')", 'return self._scopes[-1]'] \
            or [ast.unparse(d) for d in head.decorator_list] != ['property']:
        raise Shape('SymbolTable.scope_head: %s' % hs)
    if src('SymbolTable', 'enter_scope') != ['scope = Scope()', 'self._scopes.append(scope)']:
        raise Shape('SymbolTable.enter_scope: %s' % src('SymbolTable', 'enter_scope'))
    if src('SymbolTable', 'enter_block') != ['block = Block()', 'self.scope_head.append(block)']:
        raise Shape('SymbolTable.enter_block: %s' % src('SymbolTable', 'enter_block'))
    out['enterBlockAt'] = '.last'          # list.append
    lb = src('SymbolTable', 'leave_block')
    if lb != ["if not len(self.scope_head):\n    raise SymtabException('Out of block')", 'block = self.scope_head.pop()',
              'del block']:
        raise Shape('SymbolTable.leave_block: %s' % lb)
    out['leaveBlockAt'] = '.last'          # list.pop()
    ins = _strip_doc(_method(tree, 'SymbolTable', 'install_symbol').body)
    if [x.arg for x in _method(tree, 'SymbolTable', 'install_symbol').args.args] != ['self', 'name', 'handle'] or len(ins) != 3:
        raise Shape('SymbolTable.install_symbol: unexpected shape')
    loop = ins[0]
    orders = {'self.scope_head': '.firstToLast', 'reversed(self.scope_head)': '.lastToFirst'}   # iteration order of the list
    ends = {'self.scope_head[-1]': '.last', 'self.scope_head[0]': '.first'}
    if not isinstance(loop, ast.For) or ast.unparse(loop.iter) not in orders or ast.unparse(loop) != \
            'for block in %s:\n    if name in block:\n        block[name] = handle\n        return' % ast.unparse(loop.iter):
        raise Shape('SymbolTable.install_symbol: search loop: %s' % ast.unparse(loop))
    out['installSearch'] = orders[ast.unparse(loop.iter)]
    out['installHit'] = '.overwriteInPlace'
    miss = [ast.unparse(s) for s in ins[1:]]
    if len(miss) != 2 or not miss[0].startswith('block = ') or miss[0][len('block = '):] not in ends \
            or miss[1] != 'block[name] = handle':
        raise Shape('SymbolTable.install_symbol: miss: %s' % miss)
    out['installMissAt'] = ends[miss[0][len('block = '):]]
    fm = _method(tree, 'SymbolTable', 'find_symbol')
    fs = _strip_doc(fm.body)
    if [x.arg for x in fm.args.args] != ['self', 'name', 'default'] or [ast.unparse(d) for d in fm.args.defaults] != ['None'] \
            or len(fs) != 3:
        raise Shape('SymbolTable.find_symbol: unexpected shape')
    if not isinstance(fs[0], ast.For) or ast.unparse(fs[0].iter) not in orders or ast.unparse(fs[0]) != \
            'for block in %s:\n    if name in block:\n        return block[name]' % ast.unparse(fs[0].iter):
        raise Shape('SymbolTable.find_symbol: search loop: %s' % ast.unparse(fs[0]))
    out['findSearch'] = orders[ast.unparse(fs[0].iter)]
    if ast.unparse(fs[1]) != 'if default is not None:\n    self.install_symbol(name, default)\n    return default':
        raise Shape('SymbolTable.find_symbol: default: %s' % ast.unparse(fs[1]))
    if ast.unparse(fs[2]) != "return self.domain.find_symbol(name, 'constant')":
        raise Shape('SymbolTable.find_symbol: fallback: %s' % ast.unparse(fs[2]))
    out['findMiss'] = '.domainConstant'
    return out


# --------------------------------------------------------------------------- the wrapper accept / default_accept

def _wstmts(body, where):
    out = []
    for st in body:
        src = ast.unparse(st)
        if isinstance(st, ast.Return) and src == 'return xtuml.Walker.accept(self, node, **kwargs)':
            out.append('.returnDispatch')
        elif isinstance(st, ast.Expr) and isinstance(st.value, ast.Call) and ast.unparse(st.value.func) == 'logger.error':
            out.append('.logError')
        elif isinstance(st, ast.Try) and not st.orelse and not st.finalbody and len(st.handlers) == 1 \
                and st.handlers[0].type is not None:
            h = st.handlers[0]
            out.append('.tryExcept %s %s %s' % (_wstmts(st.body, where), _s(ast.unparse(h.type)), _wstmts(h.body, where)))
        else:
            raise Shape('%s: statement outside the expected shape: %s' % (where, src))
    return '[' + ', '.join(out) + ']'


def _wrapper(tree, meth):
    f = _method(tree, 'ActionWalker', meth)
    a = f.args
    if [x.arg for x in a.args] != ['self', 'node'] or a.kwarg is None or a.kwarg.arg != 'kwargs' or a.vararg or a.defaults \
            or f.decorator_list:
        raise Shape('ActionWalker.%s: unexpected signature' % meth)
    return _wstmts(_strip_doc(f.body), 'ActionWalker.' + meth)


# --------------------------------------------------------------------------- emit

HEADER = '''/-
  GENERATED by translator/gen_interpshape.py from bridgepoint/interpret.py — do not edit.
  The statement structure of the handlers `ActionWalker.accept_*` of the OAL interpreter and of the SymbolTable, one to one,
  as a first-order IR.  Props/C04.lean proves that the clauses of the reference semantics (PyxModel/Interp/Spec.lean) equal
  the generic interpretation (Proofs/InterpShape.lean) of this IR.
-/
namespace Pyx.Gen.InterpShape

/-- the control exceptions of interpret.py -/
inductive Exc where
  | returnExc | breakExc | continueExc | stopExc
  deriving DecidableEq, Repr

/-- a string handed to the symbol table, the domain or xtuml.relate -/
inductive Name where
  | field (f : String)            -- node.<f>
  | fieldNoTicks (f : String)     -- node.<f>.replace("'", '')
  | lit (s : String)              -- '<s>'
  deriving DecidableEq, Repr

/-- one call; arguments that are Python locals are given by name -/
inductive PyCall where
  | findSymbol (n : Name)                                  -- self.symtab.find_symbol(<n>)
  | installSymbol (n : Name) (v : String)                  -- self.symtab.install_symbol(<n>, <v>)
  | installSymbolCall (n : Name) (fn : String) (args : List String)   -- self.symtab.install_symbol(<n>, <fn>(<args…>))
  | enterScope | leaveScope | enterBlock | leaveBlock      -- self.symtab.<…>()
  | accept (child : String)                                -- self.accept(node.<child>)
  | acceptFget (child : String)                            -- self.accept(node.<child>).fget()
  | acceptLocal (v : String)                               -- self.accept(<v>)
  | fget (v : String)                                      -- <v>.fget()
  | fset (v w : String)                                    -- <v>.fset(<w>)
  | domainNew (cls : Name)                                 -- self.domain.new(<cls>)
  | selectMany (cls : Name) (wh : Option String)           -- self.domain.select_many(<cls>[, <wh>])
  | selectAny (cls : Name) (wh : Option String)            -- self.domain.select_any(<cls>[, <wh>])
  | relate (a b : String) (rel phrase : Name)              -- xtuml.relate(<a>, <b>, <rel>, <phrase>)
  | unrelate (a b : String) (rel phrase : Name)            -- xtuml.unrelate(<a>, <b>, <rel>, <phrase>)
  | delete (a : String)                                    -- xtuml.delete(<a>)
  | navigateMany (h : String)                              -- xtuml.navigate_many(<h>)
  | navigateOne (h : String)                               -- xtuml.navigate_one(<h>)
  | callLocal (fn : String) (args : List String)           -- <fn>(<args…>)
  | opsTable (which : String)                              -- the dict literal `{…}` (content: Gen/InterpOps.lean)
  | lowerField (f : String)                                -- node.<f>.lower()
  | applyOp (table key : String) (args : List String)      -- <table>[<key>](<args…>)
  | property (v : String)                                  -- property(lambda: <v>)
  | fieldVal (f : String)                                  -- node.<f>
  | stripFirstLast (f : String)                            -- node.<f>[1:-1]
  | upperEq (f s : String)                                 -- node.<f>.upper() == '<s>'
  | lowerEq (f s : String)                                 -- node.<f>.lower() == '<s>'
  | intOf (f : String)                                     -- int(node.<f>)
  | floatOf (f : String)                                   -- float(node.<f>)
  | propertyAttr (gh : String) (gn : Name) (sh : String) (sn : Name)
      -- property(fget=lambda: getattr(<gh>, <gn>), fset=lambda value: setattr(<sh>, <sn>, value))
  | partialFind (n : Name) (dflt : String)                 -- partial(self.symtab.find_symbol, <n>, default=<dflt>)
  | partialInstall (n : Name)                              -- partial(self.symtab.install_symbol, <n>)
  | property2 (g s : String)                               -- property(<g>, <s>)
  | navClosure (args : List Name)                          -- lambda chain: chain.nav(<args…>)
  deriving Repr

inductive PyStmt where
  | assign (dst : String) (c : PyCall)                       -- <dst> = <c>
  | expr (c : PyCall)                                        -- <c>
  | setReturnValue (c : PyCall)                              -- self.return_value = <c>
  | raise (e : Exc)                                        -- raise <e>()
  | ret (c : PyCall)                                         -- return <c>
  | retTrue                                                -- return True
  | pass | continue_ | break_
  | ifNode (flag : String) (thn els : List PyStmt)           -- if node.<flag>: … else: …
  | ifNodeNotNone (fld : String) (thn els : List PyStmt)     -- if node.<fld> is not None: … else: …
  | ifCall (negated : Bool) (c : PyCall) (thn els : List PyStmt)   -- if [not] <c>: … else: …      (elif = an if in the else)
  | tryExcept (body : List PyStmt) (handlers : List (Exc × List PyStmt))   -- try: … except <e>: …
  | forIn (var iter : String) (body : List PyStmt)           -- for <var> in <iter>: …           (<iter> a local)
  | forChildren (var : String) (body : List PyStmt)          -- for <var> in node.children: …
  | forAccept (var child : String) (body : List PyStmt)      -- for <var> in self.accept(node.<child>): …
  | whileCall (c : PyCall) (body : List PyStmt)                -- while <c>: …
  | defClosure (name param : String) (body : List PyStmt)    -- def <name>(<param>): …
  | yield_ (c : PyCall)                                    -- yield <c>

/-- the statements of `ActionWalker.accept` / `ActionWalker.default_accept` (the wrapper every handler is reached through) -/
inductive WStmt where
  | returnDispatch                                         -- return xtuml.Walker.accept(self, node, **kwargs)
  | logError                                               -- logger.error(…)
  | tryExcept (body : List WStmt) (exc : String) (handler : List WStmt)   -- try: … except <exc> as e: …

/-- which end of the Python list `scope_head` (blocks in the order they were entered) -/
inductive End where
  | first | last
  deriving DecidableEq, Repr

inductive SearchOrder where
  | firstToLast | lastToFirst
  deriving DecidableEq, Repr

inductive HitAction where
  | overwriteInPlace
  deriving DecidableEq, Repr

inductive MissAction where
  | domainConstant                -- return self.domain.find_symbol(name, 'constant')
  deriving DecidableEq, Repr

/-- SymbolTable: `for block in self.scope_head: if name in block: …`, `self.scope_head[-1]`, `.append(Block())`, `.pop()` -/
structure SymtabShape where
  scopeStartsWithOneBlock : Bool
  enterBlockAt : End
  leaveBlockAt : End
  installSearch : SearchOrder
  installHit : HitAction
  installMissAt : End
  findSearch : SearchOrder
  findMiss : MissAction
  deriving DecidableEq, Repr

'''


def generate(repo_dir):
    tree = ast.parse(open(os.path.join(repo_dir, 'bridgepoint', 'interpret.py'), encoding='utf-8').read())
    out = [HEADER]
    names = []
    for cls in HANDLERS:
        name, body = _handler(tree, cls)
        names.append(name)
        out.append('/-- `ActionWalker.%s(self, node)` -/' % name)
        out.append('def %s : List PyStmt :=\n  %s\n' % (name, body))
    out.append('/-- the handlers translated, by the name of their method -/')
    out.append('def handlerNames : List String :=\n  [' + ', '.join(_s(n) for n in names) + ']\n')
    st = _symtab(tree)
    out.append('def symtab : SymtabShape :=\n  { ' + ',\n    '.join('%s := %s' % (k, st[k]) for k in
               ['scopeStartsWithOneBlock', 'enterBlockAt', 'leaveBlockAt', 'installSearch', 'installHit', 'installMissAt',
                'findSearch', 'findMiss']) + ' }\n')
    names2 = []
    for cls in HANDLERS2:
        name, body = _handler(tree, cls)
        names2.append(name)
        out.append('/-- `ActionWalker.%s` -/' % name)
        out.append('def %s : List PyStmt :=\n  %s\n' % (name, body))
    out.append('/-- the handlers translated in addition to `handlerNames` -/')
    out.append('def handlerNames2 : List String :=\n  [' + ', '.join(_s(n) for n in names2) + ']\n')
    for meth in ('accept', 'default_accept'):
        out.append('/-- `ActionWalker.%s(self, node, **kwargs)` -/' % meth)
        out.append('def ActionWalker_%s : List WStmt :=\n  %s\n' % (meth, _wrapper(tree, meth)))
    out.append('end Pyx.Gen.InterpShape\n')
    return [('InterpShape.lean', '\n'.join(out))]


if __name__ == '__main__':
    import sys
    for name, text in generate(sys.argv[1] if len(sys.argv) > 1 else '/repo'):
        sys.stdout.write(text)
