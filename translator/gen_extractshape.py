"""bridgepoint/ooaofooa.py -> lean/Gen/ExtractShape.lean:
Reads, with `ast` only (the repository is never imported), the STATEMENT STRUCTURE of the extraction functions of
bridgepoint/ooaofooa.py and emits it, close to one to one, as a small first-order IR:

  is_contained_in / is_global          the recursion over EP_PKG (R8000), C_C (R8003), PE_PE (R8001) and the package references
                                       (R1402 'is referenced by')
  get_attribute_type                   the R106 / R113 / R106 chain to the base attribute, else R114
  _get_data_type_name                  core types (Core_Typ in range(1, 6) -> Name.upper()), S_EDT -> 'INTEGER', S_UDT over R18
  _get_related_attributes              the O_REF rows of an (R_RGO, R_RTO) pair: the OIR_ID filter, which chain gives the name
                                       appended to which list, what is returned in which order
  mk_class                             first attribute (succeeds nothing), the while loop along R103 'precedes', the skip tests
                                       (derived unless requested, unsupported type), define_class with its arguments; the
                                       identifier loop (O_ID R104, O_OIDA R105, O_ATTR R105; when an identifier is dropped;
                                       Oid_ID + 1; *names)
  mk_simple_association / mk_linked_association (+ its nested _mk_assoc) / mk_subsuper_association / mk_derived_association
                                       every navigation, the unformalised fallback, the phrase rule, and for every
                                       define_association call WHICH EXPRESSION LANDS IN WHICH PARAMETER
  mk_association                       the handler table, subtype(r_rel, 206), the call
  mk_component                         the select_many loops in source order with the scope filter; the bodies of the loops that
                                       register symbols (S_SYNC, S_DT, CNST_CSP, S_EE) belong to C15's tie (gen_callshape.py) and
                                       are kept as opaque text
  ModelLoader.build_component          select_any('C_C', where(Name=name)), the three-way decision, what is raised

Navigations are `one|many|any(<local>).<CLS>[<rel>(, '<phrase>')]…(<filter>)`; a filter is one of the lambdas of the source
(inlined where a named lambda is used).  Every statement or expression outside the translated fragment raises (= broken tie).
Props/C14.lean (section SOURCE TIE) proves that the hand-written model functions of PyxModel/Extract equal a generic interpretation
(Proofs/ExtractShapeTie.lean) of this IR.
"""
import ast
import os

OUTPUTS = ['ExtractShape.lean']


class Shape(ValueError):
    pass


def _s(s):
    out = []
    for ch in s:
        o = ord(ch)
        if ch == '"':
            out.append('\\"')
        elif ch == '\\':
            out.append('\\\\')
        elif ch == '\n':
            out.append('\\n')
        elif 32 <= o < 127:
            out.append(ch)
        else:
            out.append('\\u{%x}' % o)
    return '"' + ''.join(out) + '"'


def _slist(items):
    return '[' + ', '.join(_s(i) for i in items) + ']'


def _function(body, name):
    for n in body:
        if isinstance(n, ast.FunctionDef) and n.name == name:
            return n
    raise Shape('function %s not found' % name)


def _class(tree, cls):
    for n in tree.body:
        if isinstance(n, ast.ClassDef) and n.name == cls:
            return n
    raise Shape('class %s not found' % cls)


def _strip_doc(body):
    body = list(body)
    if body and isinstance(body[0], ast.Expr) and isinstance(getattr(body[0], 'value', None), ast.Constant) \
            and isinstance(body[0].value.value, str):
        body = body[1:]
    return body


NAV_HEADS = {'one': '.one', 'many': '.many', 'navigate_one': '.one', 'navigate_many': '.many'}

# loops of mk_component whose bodies are C15's (symbols): kept as opaque text
SYMBOL_LOOPS = ('S_SYNC', 'S_DT', 'CNST_CSP', 'S_EE')


class Fn(object):
    """translates one function body; `self.locals` = parameters, assignment targets, loop variables seen so far"""

    def __init__(self, where, params, outer=None, known=()):
        self.where = where
        self.locals = set(params) | (set(outer.locals) if outer else set())
        self.filters = dict(outer.filters) if outer else {}      # named lambdas: name -> (param, body AST)
        self.known = set(known)                                  # functions that may be called
        self.nested = []                                         # (name, params, lean body)

    def fail(self, node, what='outside the translated fragment'):
        raise Shape('%s: %s: %s' % (self.where, what, ast.unparse(node) if isinstance(node, ast.AST) else node))

    def local(self, n):
        if isinstance(n, ast.Name) and n.id in self.locals:
            return n.id
        self.fail(n, 'expected a local variable')

    def is_local(self, n):
        return isinstance(n, ast.Name) and n.id in self.locals

    # ----------------------------------------------------------------- navigation
    def hop(self, n):
        """<x>.<CLS>[<rel>] | <x>.<CLS>[<rel>, '<phrase>']  ->  (x, hop)"""
        if not (isinstance(n, ast.Subscript) and isinstance(n.value, ast.Attribute)):
            return None
        cls = n.value.attr
        sl = n.slice
        if isinstance(sl, ast.Constant) and isinstance(sl.value, int):
            rel, phrase = sl.value, ''
        elif isinstance(sl, ast.Tuple) and len(sl.elts) == 2 and isinstance(sl.elts[0], ast.Constant) \
                and isinstance(sl.elts[0].value, int) and isinstance(sl.elts[1], ast.Constant) \
                and isinstance(sl.elts[1].value, str) and sl.elts[1].value != '':
            rel, phrase = sl.elts[0].value, sl.elts[1].value
        else:
            self.fail(n, 'navigation step')
        return n.value.value, '{ cls := %s, rel := %d, phrase := %s }' % (_s(cls), rel, _s(phrase))

    def nav(self, n, selvar=None):
        """one(<v>).A[..].B[..](<filter>) -> Lean Nav, or None when `n` is no navigation"""
        if not (isinstance(n, ast.Call) and not n.keywords and len(n.args) <= 1):
            return None
        hops = []
        cur = n.func
        while True:
            h = self.hop(cur)
            if h is None:
                break
            cur, hp = h
            hops.append(hp)
        if not hops:
            return None
        hops.reverse()
        if not (isinstance(cur, ast.Call) and not cur.keywords and len(cur.args) == 1):
            self.fail(n, 'navigation head')
        head = ast.unparse(cur.func)
        if head in NAV_HEADS:
            card = NAV_HEADS[head]
        elif head in ('xtuml.navigate_any', 'navigate_any'):
            card = '.any'
        else:
            self.fail(n, 'navigation head')
        start = cur.args[0]
        if selvar is not None and isinstance(start, ast.Name) and start.id == selvar:
            sv = selvar
        else:
            sv = self.local(start)
        filt = '.all'
        if n.args:
            filt = self.filter(n.args[0])
        return '{ card := %s, start := %s, hops := [%s], filter := %s }' % (card, _s(sv), ', '.join(hops), filt)

    def lambda1(self, n):
        if not isinstance(n, ast.Lambda):
            return None
        a = n.args
        if len(a.args) != 1 or a.vararg or a.kwarg or a.kwonlyargs or a.defaults or a.posonlyargs:
            self.fail(n, 'filter lambda')
        return a.args[0].arg, n.body

    def filter(self, n):
        if isinstance(n, ast.Name) and n.id in self.filters:
            p, body = self.filters[n.id]
        else:
            lam = self.lambda1(n)
            if lam is None:
                self.fail(n, 'filter')
            p, body = lam
        # sel != <v>
        if isinstance(body, ast.Compare) and len(body.ops) == 1 and isinstance(body.ops[0], ast.NotEq) \
                and isinstance(body.left, ast.Name) and body.left.id == p and self.is_local(body.comparators[0]):
            return '(.neVar %s)' % _s(body.comparators[0].id)
        # x.F == <v>.G
        if isinstance(body, ast.Compare) and len(body.ops) == 1 and isinstance(body.ops[0], ast.Eq):
            l, r = body.left, body.comparators[0]
            if isinstance(l, ast.Attribute) and isinstance(l.value, ast.Name) and l.value.id == p \
                    and isinstance(r, ast.Attribute) and self.is_local(r.value):
                return '(.attrEqAttr %s %s %s)' % (_s(l.attr), _s(r.value.id), _s(r.attr))
        # not one(sel).…()
        if isinstance(body, ast.UnaryOp) and isinstance(body.op, ast.Not):
            nv = self.nav(body.operand, selvar=p)
            if nv is not None and 'card := .one' in nv and ('start := %s,' % _s(p)) in nv and nv.endswith('filter := .all }'):
                hops = nv[nv.index('hops := ') + len('hops := '):nv.rindex(', filter')]
                return '(.lacks %s)' % hops
        self.fail(n, 'filter')

    # ----------------------------------------------------------------- expressions
    def call_args(self, c):
        if c.keywords:
            self.fail(c, 'call with keywords')
        return _slist([self.local(a) for a in c.args])

    def expr(self, n):
        if isinstance(n, ast.Constant):
            if n.value is None:
                return '.none'
            if n.value is True or n.value is False:
                return '(.bool %s)' % ('true' if n.value else 'false')
            if isinstance(n.value, str):
                return '(.str %s)' % _s(n.value)
            self.fail(n, 'constant')
        if self.is_local(n):
            return '(.var %s)' % _s(n.id)
        if isinstance(n, ast.Attribute) and self.is_local(n.value):
            return '(.attr %s %s)' % (_s(n.value.id), _s(n.attr))
        if isinstance(n, ast.BinOp) and isinstance(n.op, ast.Add) and isinstance(n.right, ast.Constant) \
                and n.right.value == 1 and isinstance(n.left, ast.Attribute) and self.is_local(n.left.value):
            return '(.attrSucc %s %s)' % (_s(n.left.value.id), _s(n.left.attr))
        if isinstance(n, ast.Tuple) and len(n.elts) == 2 and all(self.is_local(e) for e in n.elts):
            return '(.pair %s %s)' % (_s(n.elts[0].id), _s(n.elts[1].id))
        if isinstance(n, ast.ListComp) and len(n.generators) == 1:
            g = n.generators[0]
            if not g.ifs and not g.is_async and isinstance(g.target, ast.Name) and self.is_local(g.iter) \
                    and isinstance(n.elt, ast.Attribute) and isinstance(n.elt.value, ast.Name) \
                    and n.elt.value.id == g.target.id:
                return '(.namesOf %s %s)' % (_s(n.elt.attr), _s(g.iter.id))
            self.fail(n, 'list comprehension')
        if isinstance(n, ast.Dict):
            ents = []
            for k, v in zip(n.keys, n.values):
                if not (isinstance(k, ast.Constant) and isinstance(k.value, str) and isinstance(v, ast.Name)
                        and v.id in self.known):
                    self.fail(n, 'handler table')
                ents.append('(%s, %s)' % (_s(k.value), _s(v.id)))
            return '(.table [%s])' % ', '.join(ents)
        nv = self.nav(n)
        if nv is not None:
            return '(.nav %s)' % nv
        if isinstance(n, ast.Call):
            fn = ast.unparse(n.func)
            if fn == 'list' and not n.keywords:
                if not n.args:
                    return '.emptyList'
                if len(n.args) == 1:
                    return '(.listOf %s)' % _s(self.local(n.args[0]))
            if fn == 'subtype' and not n.keywords and len(n.args) == 2 and isinstance(n.args[1], ast.Constant) \
                    and isinstance(n.args[1].value, int):
                return '(.subtype %s %d)' % (_s(self.local(n.args[0])), n.args[1].value)
            # <tbl>.get(type(<v>).__name__)
            if isinstance(n.func, ast.Attribute) and n.func.attr == 'get' and self.is_local(n.func.value) \
                    and not n.keywords and len(n.args) == 1:
                t = self.type_name(n.args[0])
                if t is not None:
                    return '(.tableGet %s %s)' % (_s(n.func.value.id), _s(t))
            # <v>.<F>.upper()
            if isinstance(n.func, ast.Attribute) and n.func.attr == 'upper' and not n.args and not n.keywords:
                v = n.func.value
                if isinstance(v, ast.Attribute) and self.is_local(v.value):
                    return '(.attrUpper %s %s)' % (_s(v.value.id), _s(v.attr))
            if isinstance(n.func, ast.Name) and n.func.id in self.known:
                return '(.call %s %s)' % (_s(n.func.id), self.call_args(n))
            if isinstance(n.func, ast.Name) and n.func.id in self.locals:
                return '(.callVar %s %s)' % (_s(n.func.id), self.call_args(n))
            # mm.select_any('C_C', where(Name=name))
            if isinstance(n.func, ast.Attribute) and n.func.attr == 'select_any' and self.is_local(n.func.value) \
                    and not n.keywords and len(n.args) == 2 and isinstance(n.args[0], ast.Constant):
                w = n.args[1]
                if isinstance(w, ast.Call) and ast.unparse(w.func) == 'where' and not w.args and len(w.keywords) == 1 \
                        and self.is_local(w.keywords[0].value):
                    return '(.selectAnyWhere %s %s %s)' % (_s(n.args[0].value), _s(w.keywords[0].arg),
                                                            _s(w.keywords[0].value.id))
        self.fail(n, 'expression')

    def type_name(self, n):
        """type(<v>).__name__ -> v"""
        if isinstance(n, ast.Attribute) and n.attr == '__name__' and isinstance(n.value, ast.Call) \
                and ast.unparse(n.value.func) == 'type' and len(n.value.args) == 1 and not n.value.keywords \
                and self.is_local(n.value.args[0]):
            return n.value.args[0].id
        return None

    def cond(self, n, selvar=None):
        if isinstance(n, ast.UnaryOp) and isinstance(n.op, ast.Not):
            return '(.not %s)' % self.cond(n.operand, selvar)
        if isinstance(n, ast.BoolOp):
            op = '.and' if isinstance(n.op, ast.And) else '.or'
            out = self.cond(n.values[-1], selvar)
            for v in reversed(n.values[:-1]):
                out = '(%s %s %s)' % (op, self.cond(v, selvar), out)
            return out
        if isinstance(n, ast.Compare) and len(n.ops) == 1:
            l, r, op = n.left, n.comparators[0], n.ops[0]
            if isinstance(op, ast.NotEq) and isinstance(l, ast.Attribute) and isinstance(r, ast.Attribute) \
                    and self.is_local(l.value) and self.is_local(r.value):
                return '(.attrNe %s %s %s %s)' % (_s(l.value.id), _s(l.attr), _s(r.value.id), _s(r.attr))
            if isinstance(op, ast.NotEq) and self.type_name(l) is not None and isinstance(r, ast.Constant) \
                    and isinstance(r.value, str):
                return '(.typeNameNe %s %s)' % (_s(self.type_name(l)), _s(r.value))
            if isinstance(op, ast.Is) and self.is_local(l) and isinstance(r, ast.Constant) and r.value is None:
                return '(.isNone %s)' % _s(l.id)
            if isinstance(op, ast.In) and self.is_local(l) and isinstance(r, ast.List) \
                    and all(self.is_local(e) for e in r.elts):
                return '(.among %s %s)' % (_s(l.id), _slist([e.id for e in r.elts]))
            if isinstance(op, ast.In) and isinstance(l, ast.Attribute) and self.is_local(l.value) \
                    and isinstance(r, ast.Call) and ast.unparse(r.func) == 'range' and len(r.args) == 2 \
                    and all(isinstance(a, ast.Constant) and isinstance(a.value, int) for a in r.args) and not r.keywords:
                return '(.attrInRange %s %s %d %d)' % (_s(l.value.id), _s(l.attr), r.args[0].value, r.args[1].value)
            self.fail(n, 'comparison')
        if selvar is not None and isinstance(n, ast.Call) and isinstance(n.func, ast.Name) and n.func.id in self.known \
                and not n.keywords:
            args = []
            for a in n.args:
                if isinstance(a, ast.Name) and (a.id == selvar or a.id in self.locals):
                    args.append(a.id)
                else:
                    self.fail(n, 'call in a filter')
            return '(.truthy (.call %s %s))' % (_s(n.func.id), _slist(args))
        return '(.truthy %s)' % self.expr(n)

    # ----------------------------------------------------------------- statements
    def is_log(self, s):
        return isinstance(s, ast.Expr) and isinstance(s.value, ast.Call) \
            and ast.unparse(s.value.func) in ('logger.info', 'logger.warning', 'logger.debug')

    def define(self, c, bind):
        """m.define_xxx(args…) -> .define "define_xxx" [(param, expr)…] star bind"""
        args = []
        star = 'none'
        for i, a in enumerate(c.args):
            if isinstance(a, ast.Starred):
                if i != len(c.args) - 1:
                    self.fail(c, 'starred argument not last')
                star = '(some %s)' % _s(self.local(a.value))
            else:
                args.append('(%s, %s)' % (_s(str(i)), self.expr(a)))
        for k in c.keywords:
            if k.arg is None:
                self.fail(c, '**kwargs')
            args.append('(%s, %s)' % (_s(k.arg), self.expr(k.value)))
        b = 'none' if bind is None else '(some %s)' % _s(bind)
        return '.define %s [%s] %s %s' % (_s(c.func.attr), ', '.join(args), star, b)

    def is_define(self, c):
        return isinstance(c, ast.Call) and isinstance(c.func, ast.Attribute) and c.func.attr.startswith('define_') \
            and isinstance(c.func.value, ast.Name) and c.func.value.id in self.locals

    def block(self, stmts, ind):
        out = []
        for s in stmts:
            out.extend(self.stmt(s, ind))
        return out

    def emit_block(self, stmts, ind):
        lines = self.block(stmts, ind + 2)
        if not lines:
            return '[]'
        return '[\n' + ',\n'.join(lines) + ' ]'

    def opaque(self, s, ind):
        return [' ' * ind + '.opaque %s' % _s(' '.join(ast.unparse(s).split()))]

    def stmt(self, s, ind):
        pad = ' ' * ind
        if self.is_log(s):
            return [pad + '.log']
        if isinstance(s, ast.Pass):
            return [pad + '.pass']
        if isinstance(s, ast.Continue):
            return [pad + '.continue']
        if isinstance(s, ast.Return):
            if s.value is None:
                return [pad + '.ret .none']
            return [pad + '.ret %s' % self.expr(s.value)]
        if isinstance(s, ast.Raise):
            c = s.exc
            if isinstance(c, ast.Call) and isinstance(c.func, ast.Name):
                return [pad + '.raise %s' % _s(c.func.id)]
            self.fail(s, 'raise')
        if isinstance(s, ast.FunctionDef):
            if s.decorator_list or s.args.vararg or s.args.kwarg or s.args.kwonlyargs or s.args.defaults:
                self.fail(s, 'nested function signature')
            params = [a.arg for a in s.args.args]
            sub = Fn('%s.%s' % (self.where, s.name), params, outer=self, known=self.known)
            body = sub.emit_block(_strip_doc(s.body), 2)
            if sub.nested:
                self.fail(s, 'doubly nested function')
            self.nested.append((s.name, params, body))
            self.known.add(s.name)
            return []
        if isinstance(s, ast.Assign):
            v = s.value
            tg = s.targets
            if len(tg) == 1 and isinstance(tg[0], ast.Name) and isinstance(v, ast.Lambda):
                lam = self.lambda1(v)
                self.filters[tg[0].id] = lam
                return []
            if len(tg) == 1 and isinstance(tg[0], ast.Tuple) and len(tg[0].elts) == 2 \
                    and all(isinstance(e, ast.Name) for e in tg[0].elts):
                e = self.expr(v)
                a, b = tg[0].elts[0].id, tg[0].elts[1].id
                self.locals.update((a, b))
                return [pad + '.unpack %s %s %s' % (_s(a), _s(b), e)]
            if all(isinstance(t, ast.Name) for t in tg):
                names = [t.id for t in tg]
                if len(names) == 1 and self.is_define(v):
                    line = pad + self.define(v, names[0])
                    self.locals.add(names[0])
                    return [line]
                e = self.expr(v)
                self.locals.update(names)
                if len(names) == 1:
                    return [pad + '.assign %s %s' % (_s(names[0]), e)]
                return [pad + '.assignAll %s %s' % (_slist(names), e)]
            self.fail(s, 'assignment')
        if isinstance(s, ast.Expr) and isinstance(s.value, ast.Call):
            c = s.value
            if self.is_define(c):
                return [pad + self.define(c, None)]
            # <l>.append(<e>) / <l>.append((<e1>, <e2>))
            if isinstance(c.func, ast.Attribute) and c.func.attr == 'append' and self.is_local(c.func.value) \
                    and len(c.args) == 1 and not c.keywords:
                a = c.args[0]
                if isinstance(a, ast.Tuple) and len(a.elts) == 2:
                    return [pad + '.appendPair %s %s %s' % (_s(c.func.value.id), self.expr(a.elts[0]), self.expr(a.elts[1]))]
                return [pad + '.append %s %s' % (_s(c.func.value.id), self.expr(a))]
            if isinstance(c.func, ast.Name) and c.func.id in self.known:
                return [pad + '.callStmt %s %s' % (_s(c.func.id), self.call_args(c))]
            if ast.unparse(c.func) == 'setattr':
                return self.opaque(s, ind)
            self.fail(s, 'expression statement')
        if isinstance(s, ast.If):
            c = self.cond(s.test)
            thn = self.emit_block(s.body, ind)
            els = self.emit_block(s.orelse, ind)
            return [pad + '.ite %s %s %s' % (c, thn, els)]
        if isinstance(s, ast.While):
            if s.orelse or not self.is_local(s.test):
                self.fail(s, 'while')
            return [pad + '.whileVar %s %s' % (_s(s.test.id), self.emit_block(s.body, ind))]
        if isinstance(s, ast.For):
            if s.orelse or not isinstance(s.target, ast.Name):
                self.fail(s, 'for')
            v = s.target.id
            it = s.iter
            nv = self.nav(it)
            if nv is not None:
                self.locals.add(v)
                return [pad + '.forNav %s %s %s' % (_s(v), nv, self.emit_block(s.body, ind))]
            # bp_model.select_many('<CLS>', c_c_filt)
            if isinstance(it, ast.Call) and isinstance(it.func, ast.Attribute) and it.func.attr == 'select_many' \
                    and self.is_local(it.func.value) and not it.keywords and len(it.args) == 2 \
                    and isinstance(it.args[0], ast.Constant) and isinstance(it.args[1], ast.Name) \
                    and it.args[1].id in self.filters:
                cls = it.args[0].value
                p, body = self.filters[it.args[1].id]
                cnd = self.cond(body, selvar=p)
                self.locals.add(v)
                if cls in SYMBOL_LOOPS:
                    inner = ',\n'.join(self.opaque(x, ind + 4)[0] for x in s.body)
                    blk = '[\n' + inner + ' ]'
                else:
                    blk = self.emit_block(s.body, ind)
                return [pad + '.forSelect %s %s %s %s %s' % (_s(v), _s(cls), _s(p), cnd, blk)]
            if ast.unparse(it) == 'target.associations':
                return self.opaque(s, ind)
            self.fail(s, 'for')
        self.fail(s, 'statement')


HEADER = '''/-
  GENERATED by translator/gen_extractshape.py from bridgepoint/ooaofooa.py — do not edit.
  The statement structure of the extraction functions (is_contained_in, is_global, get_attribute_type, _get_data_type_name,
  _get_related_attributes, mk_class, mk_simple_association, mk_linked_association and its nested _mk_assoc,
  mk_subsuper_association, mk_derived_association, mk_association, mk_component, ModelLoader.build_component), close to one to
  one, as a first-order IR.  Props/C14.lean (section SOURCE TIE) proves that the model functions of PyxModel/Extract equal the
  generic interpretation (Proofs/ExtractShapeTie.lean) of this IR.
-/
namespace Pyx.Gen.ExtractShape

/-- one navigation step `.<cls>[<rel>]` / `.<cls>[<rel>, '<phrase>']` (`phrase = ""`: none given) -/
structure Hop where
  cls : String
  rel : Nat
  phrase : String
  deriving DecidableEq, Repr

inductive Card where
  | one | many | any
  deriving DecidableEq, Repr

/-- the predicate handed to a navigation -/
inductive Filter where
  | all                                         -- ()
  | neVar (v : String)                          -- (lambda sel: sel != <v>)
  | attrEqAttr (f v g : String)                 -- (lambda x: x.<f> == <v>.<g>)
  | lacks (hops : List Hop)                     -- (lambda sel: not one(sel).<hops>())
  deriving DecidableEq, Repr

/-- `one|many|any(<start>).<hops…>(<filter>)` -/
structure Nav where
  card : Card
  start : String
  hops : List Hop
  filter : Filter
  deriving DecidableEq, Repr

inductive Expr where
  | nav (n : Nav)
  | var (v : String)                            -- <v>
  | attr (v f : String)                         -- <v>.<f>
  | attrSucc (v f : String)                     -- <v>.<f> + 1
  | attrUpper (v f : String)                    -- <v>.<f>.upper()
  | str (s : String)
  | bool (b : Bool)
  | none
  | emptyList                                   -- list()
  | listOf (v : String)                         -- list(<v>)
  | namesOf (f v : String)                      -- [x.<f> for x in <v>]
  | pair (a b : String)                         -- <a>, <b>
  | call (fn : String) (args : List String)     -- <fn>(<args…>)        (a function of this file)
  | callVar (v : String) (args : List String)   -- <v>(<args…>)         (a local holding a function)
  | table (entries : List (String × String))    -- {'<k>': <fn>, …}
  | tableGet (tbl v : String)                   -- <tbl>.get(type(<v>).__name__)
  | subtype (v : String) (rel : Nat)            -- subtype(<v>, <rel>)
  | selectAnyWhere (cls attr v : String)        -- <mm>.select_any('<cls>', where(<attr>=<v>))
  deriving DecidableEq, Repr

inductive Cond where
  | truthy (e : Expr)                           -- <e>
  | not (c : Cond)
  | and (a b : Cond)
  | or (a b : Cond)
  | attrNe (a f b g : String)                   -- <a>.<f> != <b>.<g>
  | typeNameNe (v name : String)                -- type(<v>).__name__ != '<name>'
  | isNone (v : String)                         -- <v> is None
  | among (v : String) (vs : List String)       -- <v> in [<vs…>]
  | attrInRange (v f : String) (lo hi : Nat)    -- <v>.<f> in range(<lo>, <hi>)
  deriving Repr

inductive Stmt where
  | assign (dst : String) (e : Expr)            -- <dst> = <e>
  | assignAll (dsts : List String) (e : Expr)   -- <d1> = <d2> = <e>
  | unpack (d1 d2 : String) (e : Expr)          -- <d1>, <d2> = <e>
  | append (l : String) (e : Expr)              -- <l>.append(<e>)
  | appendPair (l : String) (e1 e2 : Expr)      -- <l>.append((<e1>, <e2>))
  | ite (c : Cond) (thn els : List Stmt)
  | forNav (v : String) (n : Nav) (body : List Stmt)
  | forSelect (v cls sel : String) (scope : Cond) (body : List Stmt)   -- for <v> in bp_model.select_many('<cls>', lambda <sel>: <scope>)
  | whileVar (v : String) (body : List Stmt)    -- while <v>: …
  | log                                         -- logger.info / logger.warning(…)
  | pass
  | continue
  | ret (e : Expr)
  | raise (exc : String)
  /-- `[<bind> =] m.<fn>(<args…>, *<star>)`: positional parameters are named "0", "1", …, keyword parameters by their keyword -/
  | define (fn : String) (args : List (String × Expr)) (star : Option String) (bind : Option String)
  | callStmt (fn : String) (args : List String)
  | opaque (text : String)                      -- a statement of another property's tie (C15), verbatim

structure Def where
  params : List String
  /-- a nested `def`: it reads the locals of the enclosing function at the time of the call -/
  nested : Bool
  body : List Stmt
'''


TOP = ['is_contained_in', 'is_global', 'get_attribute_type', '_get_data_type_name', '_get_related_attributes',
       'mk_class', 'mk_simple_association', 'mk_linked_association', 'mk_subsuper_association', 'mk_derived_association',
       'mk_association', 'mk_component']
# functions of other ties that the bodies above may call (their shape: gen_callshape.py)
FOREIGN = ['mk_operation', 'mk_derived_attribute', 'mk_function', 'mk_enum', 'mk_constant', 'mk_external_entity']

LEAN_NAME = {'_get_data_type_name': 'get_data_type_name', '_get_related_attributes': 'get_related_attributes'}


def _params(f, where, defaults_ok=()):
    a = f.args
    if a.vararg or a.kwarg or a.kwonlyargs or a.posonlyargs or f.decorator_list:
        raise Shape('%s: unexpected signature' % where)
    names = [x.arg for x in a.args]
    if a.defaults:
        dn = names[len(names) - len(a.defaults):]
        got = [(n, ast.unparse(d)) for n, d in zip(dn, a.defaults)]
        if got != list(defaults_ok):
            raise Shape('%s: unexpected defaults %r' % (where, got))
    return names


DEFAULTS = {'mk_class': [('derived_attributes', 'False')],
            'mk_component': [('c_c', 'None'), ('derived_attributes', 'False')],
            'build_component': [('name', 'None'), ('derived_attributes', 'False')]}


def generate(repo_dir):
    tree = ast.parse(open(os.path.join(repo_dir, 'bridgepoint', 'ooaofooa.py'), encoding='utf-8').read())
    out = [HEADER]
    defs = []
    known = set(TOP) | set(FOREIGN)
    for name in TOP:
        f = _function(tree.body, name)
        params = _params(f, name, DEFAULTS.get(name, ()))
        fn = Fn(name, params, known=known)
        body = _strip_doc(f.body)
        if name == 'mk_component':
            # `target = Domain()`: the metamodel under construction
            if not (body and ast.unparse(body[0]) == 'target = Domain()'):
                raise Shape('mk_component: expected `target = Domain()` first')
            fn.locals.add('target')
            body = body[1:]
        text = fn.emit_block(body, 2)
        lname = LEAN_NAME.get(name, name)
        for (nn, nparams, nbody) in fn.nested:
            ln = '%s_%s' % (lname, nn.lstrip('_'))
            out.append('/-- `%s`, nested in `%s` -/' % (nn, name))
            out.append('def %s : Def :=\n  { params := %s, nested := true,\n    body := %s }\n' % (ln, _slist(nparams), nbody))
            defs.append((nn, ln))
        out.append('/-- `%s(%s)` -/' % (name, ', '.join(params)))
        out.append('def %s : Def :=\n  { params := %s, nested := false,\n    body := %s }\n' % (lname, _slist(params), text))
        defs.append((name, lname))
    # ModelLoader.build_component
    cls = _class(tree, 'ModelLoader')
    f = _function(cls.body, 'build_component')
    params = _params(f, 'build_component', DEFAULTS['build_component'])
    if params[:1] != ['self']:
        raise Shape('build_component: expected self')
    body = _strip_doc(f.body)
    if not (body and ast.unparse(body[0]) == 'mm = self.build_metamodel()'):
        raise Shape('build_component: expected `mm = self.build_metamodel()` first')
    fn = Fn('build_component', params[1:] + ['mm'], known=known)
    text = fn.emit_block(body[1:], 2)
    out.append('/-- `ModelLoader.build_component(self, %s)` after `mm = self.build_metamodel()` -/' % ', '.join(params[1:]))
    out.append('def build_component : Def :=\n  { params := %s, nested := false,\n    body := %s }\n'
               % (_slist(params[1:] + ['mm']), text))
    defs.append(('build_component', 'build_component'))
    out.append('/-- the functions by their Python name -/')
    out.append('def defs : List (String × Def) :=\n  [%s]\n' % ', '.join('(%s, %s)' % (_s(a), b) for a, b in defs))
    out.append('end Pyx.Gen.ExtractShape\n')
    return [('ExtractShape.lean', '\n'.join(out))]


if __name__ == '__main__':
    import sys
    for name, text in generate(sys.argv[1] if len(sys.argv) > 1 else '/repo'):
        sys.stdout.write(text)
