"""xtuml/load.py -> lean/Gen/SqlLex.lean:
Read with `ast` only (the repository is never imported):
  * ModelLoader.reserved            -> inductive Kw (+ Kw.all, Kw.chars)
  * ModelLoader.tokens              -> tokenNames
  * ModelLoader.t_ignore            -> ignore
  * every t_* method in definition order (PLY: function rules are tried in definition order)
        name, regex source (the docstring), whether the body returns the token,
        whether the body retypes the token through `reserved` (t_ID)
                                    -> inductive Rule, ruleOrder, Rule.regex, Rule.returnsToken, Rule.retypesReserved
        and the regex as an AST of lean/PyxModel/Regex.lean, obtained from Python's own regex parser under PLY's
        default flags (translator/regex_ast.py; `lex.lex(...)` in `input` must not pass `reflags`)
                                    -> Rule.rx
  * every p_* docstring             -> grammar (productions in source order), identifierAlts
  * the literal comparisons in the p_cardinality_* bodies -> cardinalityChecks

The source must have the shape this extractor knows (function rules only, no string rules, no lexer
states, no literals); anything else raises, which the runner reports as a broken tie.
"""
import ast
import os

import regex_ast


OUTPUTS = ['SqlLex.lean']


def _lean_str(s):
    out = []
    for ch in s:
        o = ord(ch)
        if ch == '"':
            out.append('\\"')
        elif ch == '\\':
            out.append('\\\\')
        elif 32 <= o < 127:
            out.append(ch)
        elif o < 256:
            out.append('\\x%02x' % o)
        else:
            out.append('\\u%04x' % o)
    return '"' + ''.join(out) + '"'


def _lean_chars(s):
    return '[' + ', '.join('Char.ofNat %d' % ord(ch) for ch in s) + ']'


def _docstring(fn):
    if fn.body and isinstance(fn.body[0], ast.Expr) and isinstance(fn.body[0].value, ast.Constant) \
            and isinstance(fn.body[0].value.value, str):
        return fn.body[0].value.value
    return None


def _returns_token(fn):
    arg = fn.args.args[1].arg
    for node in ast.walk(fn):
        if isinstance(node, ast.Return) and isinstance(node.value, ast.Name) and node.value.id == arg:
            return True
    return False


def _retypes_reserved(fn):
    """body contains:  vup = t.value.upper() ; if vup in self.reserved: t.type = vup"""
    src = ast.unparse(fn)
    has = ('.value.upper()' in src) and ('in self.reserved' in src) and ('.type = ' in src)
    return has


def _productions(doc):
    """'a : B C\n | D' -> [('a', ['B','C']), ('a', ['D'])]"""
    toks = doc.replace('|', ' | ').split()
    if len(toks) < 2 or toks[1] != ':':
        raise ValueError('grammar docstring without "lhs :": %r' % doc)
    lhs = toks[0]
    out, cur = [], []
    for t in toks[2:]:
        if t == '|':
            out.append((lhs, cur))
            cur = []
        else:
            cur.append(t)
    out.append((lhs, cur))
    return out


def _ident_ok(name):
    return name.isidentifier() and name.isascii()


def generate(repo_dir):
    path = os.path.join(repo_dir, 'xtuml', 'load.py')
    tree = ast.parse(open(path, encoding='utf-8').read())
    cls = None
    for node in tree.body:
        if isinstance(node, ast.ClassDef) and node.name == 'ModelLoader':
            cls = node
    if cls is None:
        raise ValueError('class ModelLoader not found in xtuml/load.py')
    # PLY compiles the rule regexes with `reflags` (default re.VERBOSE); the ASTs below are parsed under that default
    for node in ast.walk(cls):
        if isinstance(node, ast.Call) and isinstance(node.func, ast.Attribute) and node.func.attr == 'lex' \
                and isinstance(node.func.value, ast.Name) and node.func.value.id == 'lex':
            if any(k.arg == 'reflags' or k.arg is None for k in node.keywords):
                raise ValueError('lex.lex is called with reflags: unsupported shape')
    reserved = None
    tokens_extra = None
    ignore = None
    rules = []
    prods = []
    card_checks = []
    for node in cls.body:
        if isinstance(node, ast.Assign) and len(node.targets) == 1 and isinstance(node.targets[0], ast.Name):
            name = node.targets[0].id
            if name == 'reserved':
                reserved = ast.literal_eval(node.value)
            elif name == 'tokens':
                v = node.value
                if not (isinstance(v, ast.BinOp) and isinstance(v.op, ast.Add) and isinstance(v.left, ast.Name)
                        and v.left.id == 'reserved'):
                    raise ValueError('tokens is not `reserved + (...)`')
                tokens_extra = ast.literal_eval(v.right)
            elif name == 't_ignore':
                ignore = ast.literal_eval(node.value)
            elif name.startswith('t_'):
                raise ValueError('string-defined lexer rule %s (PLY orders those by regex length): unsupported shape' % name)
            elif name in ('states', 'literals', 'precedence'):
                raise ValueError('lexer/parser attribute %s: unsupported shape' % name)
        elif isinstance(node, ast.FunctionDef):
            if node.name.startswith('t_') and node.name != 't_error':
                doc = _docstring(node)
                if doc is None:
                    raise ValueError('%s has no regex docstring' % node.name)
                rules.append((node.lineno, node.name[2:], doc, _returns_token(node), _retypes_reserved(node)))
            elif node.name.startswith('p_') and node.name != 'p_error':
                doc = _docstring(node)
                if doc is None:
                    raise ValueError('%s has no grammar docstring' % node.name)
                prods.append((node.lineno, node.name, _productions(doc)))
                if node.name.startswith('p_cardinality'):
                    for sub in ast.walk(node):
                        if isinstance(sub, ast.Compare) and len(sub.ops) == 1:
                            card_checks.append((node.name, ast.unparse(sub)))
    if reserved is None or tokens_extra is None or ignore is None:
        raise ValueError('reserved / tokens / t_ignore not found')
    if not all(isinstance(r, str) and _ident_ok(r) and r == r.upper() for r in reserved):
        raise ValueError('reserved words are expected to be upper-case ASCII identifiers')
    if len(set(reserved)) != len(reserved):
        raise ValueError('duplicate reserved word')
    rules.sort()
    prods.sort()
    for _, n, _, _, _ in rules:
        if not _ident_ok(n):
            raise ValueError('rule name %r' % n)
    if len(set(r[1] for r in rules)) != len(rules):
        raise ValueError('duplicate lexer rule name')
    ident_alts = []
    grammar = []
    for _, fname, ps in prods:
        for lhs, rhs in ps:
            grammar.append((lhs, rhs))
            if lhs == 'identifier':
                if len(rhs) != 1:
                    raise ValueError('identifier alternative is not a single token: %r' % (rhs,))
                ident_alts.append(rhs[0])

    o = []
    o.append('import PyxModel.Regex')
    o.append('')
    o.append('/-! GENERATED by translator/gen_sqllex.py from xtuml/load.py -- do not edit.')
    o.append('    Lexer rule order, reserved words, ignore set and grammar of the SQL dialect as the source states them. -/')
    o.append('namespace Gen.SqlLex')
    o.append('open Pyx.Regex')
    o.append('')
    o.append('/-- `ModelLoader.reserved` -/')
    o.append('inductive Kw where')
    for r in reserved:
        o.append('  | %s' % r)
    o.append('  deriving DecidableEq, Repr, Inhabited')
    o.append('')
    o.append('def Kw.all : List Kw := [%s]' % ', '.join('.%s' % r for r in reserved))
    o.append('')
    o.append('def Kw.chars : Kw → List Char')
    for r in reserved:
        o.append('  | .%s => %s' % (r, _lean_chars(r)))
    o.append('')
    o.append('def Kw.name : Kw → String')
    for r in reserved:
        o.append('  | .%s => %s' % (r, _lean_str(r)))
    o.append('')
    o.append('/-- `ModelLoader.tokens` -/')
    o.append('def tokenNames : List String := [%s]' % ', '.join(_lean_str(t) for t in list(reserved) + list(tokens_extra)))
    o.append('')
    o.append('/-- `t_ignore` -/')
    o.append('def ignore : List Char := %s' % _lean_chars(ignore))
    o.append('')
    o.append('/-- the `t_*` function rules (PLY tries function rules in definition order) -/')
    o.append('inductive Rule where')
    for _, n, _, _, _ in rules:
        o.append('  | %s' % n)
    o.append('  deriving DecidableEq, Repr, Inhabited')
    o.append('')
    o.append('def ruleOrder : List Rule := [%s]' % ', '.join('.%s' % r[1] for r in rules))
    o.append('')
    o.append('def Rule.regex : Rule → String')
    for _, n, rx, _, _ in rules:
        o.append('  | .%s => %s' % (n, _lean_str(rx)))
    o.append('')
    o.append('/-- the regex of each rule as the parse tree Python\'s own `re._parser` gives for it (flags: PLY\'s default) -/')
    o.append('def Rule.rx : Rule → Pyx.Regex.Regex')
    for _, n, rx, _, _ in rules:
        try:
            term = regex_ast.lean_term(regex_ast.to_ast(rx))
        except regex_ast.Unsupported as e:
            raise ValueError('regex of t_%s is outside the modelled regex language: %s' % (n, e))
        o.append('  | .%s => %s' % (n, term))
    o.append('')
    o.append('/-- does the rule body `return t` (otherwise the match is discarded) -/')
    o.append('def Rule.returnsToken : Rule → Bool')
    for _, n, _, rt, _ in rules:
        o.append('  | .%s => %s' % (n, 'true' if rt else 'false'))
    o.append('')
    o.append('/-- does the rule body retype the token when `t.value.upper()` is a reserved word -/')
    o.append('def Rule.retypesReserved : Rule → Bool')
    for _, n, _, _, rr in rules:
        o.append('  | .%s => %s' % (n, 'true' if rr else 'false'))
    o.append('')
    o.append('/-- every production of the `p_*` docstrings, in source order -/')
    o.append('def grammar : List (String × List String) := [')
    o.append(',\n'.join('  (%s, [%s])' % (_lean_str(l), ', '.join(_lean_str(x) for x in r)) for l, r in grammar))
    o.append(']')
    o.append('')
    o.append('/-- alternatives of `p_identifier` -/')
    o.append('def identifierAlts : List String := [%s]' % ', '.join(_lean_str(a) for a in ident_alts))
    o.append('')
    for a in ident_alts:
        if a != 'ID' and a not in reserved:
            raise ValueError('identifier alternative %r is neither ID nor a reserved word' % a)
    o.append('def identifierAllowsID : Bool := %s' % ('true' if 'ID' in ident_alts else 'false'))
    o.append('def identifierKws : List Kw := [%s]' % ', '.join('.%s' % a for a in ident_alts if a != 'ID'))
    o.append('')
    o.append('/-- the comparisons in the `p_cardinality_*` actions -/')
    o.append('def cardinalityChecks : List (String × String) := [%s]' % ', '.join(
        '(%s, %s)' % (_lean_str(a), _lean_str(b)) for a, b in card_checks))
    o.append('')
    o.append('end Gen.SqlLex')
    o.append('')
    return [('SqlLex.lean', '\n'.join(o))]
