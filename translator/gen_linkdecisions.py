"""xtuml/meta.py -> lean/Gen/LinkDecisions.lean:
Translates the DECISION STRUCTURE of `Link.connect` and `Link.disconnect` — a chain of guarded early
returns followed by the mutation — into Lean decision functions, reading the source with `ast` only.

A method body is accepted when, after the docstring, it consists of
  * "setup" statements from a white list (creating the empty partner set for a new key),
  * `if <condition>: return True|False` statements whose conditions are and/or/not combinations of known atoms,
  * the mutation statements from a white list,
  * a final `return True`;
anything else raises (= broken tie).  The emitted function maps the truth values of the atoms to
`retTrue` (early return True: no mutation), `retFalse` (refused / nothing to do) or `mutate`.
Props/C02.lean proves that the model's `connect` / `disconnect` take exactly these decisions.
"""
import ast
import os

OUTPUTS = ['LinkDecisions.lean']


def _bool(n, atoms):
    src = ast.unparse(n)
    if src in atoms:
        return atoms[src]
    if isinstance(n, ast.BoolOp):
        op = ' && ' if isinstance(n.op, ast.And) else ' || '
        return '(' + op.join(_bool(v, atoms) for v in n.values) + ')'
    if isinstance(n, ast.UnaryOp) and isinstance(n.op, ast.Not):
        return '(!' + _bool(n.operand, atoms) + ')'
    raise ValueError('condition outside the translated fragment: %s' % src)


def _method(tree, cls, name):
    for n in tree.body:
        if isinstance(n, ast.ClassDef) and n.name == cls:
            for f in n.body:
                if isinstance(f, ast.FunctionDef) and f.name == name:
                    return f
    raise ValueError('%s.%s not found' % (cls, name))


def _needs_key(src):
    # evaluating `self[instance]` raises KeyError unless `instance in self` is known at that point
    return 'self[instance]' in src


def _chain(f, atoms, setup, mutation, key_guards=()):
    """`key_guards`: conditions (source text) whose early return establishes `instance in self` for what follows; a
    setup statement that creates the entry establishes it too.  A guard or mutation statement that reads
    `self[instance]` before that is refused: the translated decision function treats its atoms as total Booleans,
    which is only right where their evaluation cannot raise (audit round 2, B.2: deleting the first guard of
    Link.disconnect used to leave the tie intact while unrelate raised KeyError)."""
    body = list(f.body)
    if body and isinstance(body[0], ast.Expr) and isinstance(getattr(body[0], 'value', None), ast.Constant):
        body = body[1:]
    guards = []
    seen_mutation = []
    key_safe = False
    for st in body:
        src = ast.unparse(st)
        if src in setup:
            key_safe = True
            continue
        if isinstance(st, ast.If):
            if _needs_key(ast.unparse(st.test)) and not key_safe:
                raise ValueError('%s: `%s` reads self[instance] before `instance in self` is established (KeyError)'
                                 % (f.name, ast.unparse(st.test)))
        elif _needs_key(src) and not key_safe:
            raise ValueError('%s: `%s` reads self[instance] before `instance in self` is established (KeyError)' % (f.name, src))
        if isinstance(st, ast.If) and not st.orelse and len(st.body) == 1 and isinstance(st.body[0], ast.Return) \
                and isinstance(st.body[0].value, ast.Constant) and st.body[0].value.value in (True, False) \
                and not seen_mutation:
            guards.append((_bool(st.test, atoms), 'retTrue' if st.body[0].value.value else 'retFalse'))
            if ast.unparse(st.test) in key_guards:
                key_safe = True
            continue
        if src in mutation:
            seen_mutation.append(src)
            continue
        raise ValueError('%s: statement outside the expected shape: %s' % (f.name, src))
    if [m for m in mutation if m not in seen_mutation]:
        raise ValueError('%s: expected mutation statements missing: %s' % (f.name, [m for m in mutation if m not in seen_mutation]))
    if seen_mutation[-1] != 'return True':
        raise ValueError('%s: does not end with `return True`' % f.name)
    term = '.mutate'
    for cond, res in reversed(guards):
        term = 'if %s then .%s else %s' % (cond, res, term)
    return term


def generate(repo_dir):
    tree = ast.parse(open(os.path.join(repo_dir, 'xtuml', 'meta.py')).read())
    f = _method(tree, 'Link', 'connect')
    args = [a.arg for a in f.args.args]
    if args != ['self', 'instance', 'another_instance', 'check'] or ast.unparse(f.args.defaults[0]) != 'True':
        raise ValueError('Link.connect: unexpected signature %s' % args)
    connect = _chain(
        f,
        atoms={'another_instance in self[instance]': 'present', 'self[instance]': 'nonempty', 'self.many': 'many',
               'check': 'check'},
        setup=['if instance not in self:\n    self[instance] = xtuml.OrderedSet()'],
        mutation=['self[instance].add(another_instance)', 'return True'])
    f = _method(tree, 'Link', 'disconnect')
    disconnect = _chain(
        f,
        # the dict holds a key exactly when its partner set is non-empty (disconnect deletes emptied entries)
        atoms={'instance not in self': '(!nonempty)', 'another_instance not in self[instance]': '(!present)'},
        setup=[],
        mutation=['self[instance].remove(another_instance)', 'if len(self[instance]) == 0:\n    del self[instance]',
                  'return True'],
        key_guards=['instance not in self'])
    text = '''/-
  GENERATED by translator/gen_linkdecisions.py from xtuml/meta.py (Link.connect, Link.disconnect) — do not edit.
-/
namespace Pyx.Gen.LinkDecisions

inductive Decision where
  | retTrue     -- early `return True`, nothing changes
  | retFalse    -- `return False`, nothing changes
  | mutate      -- falls through to the mutation and returns True
  deriving DecidableEq, Repr

/-- `Link.connect(instance, another_instance, check)`: present = `another_instance in self[instance]`,
    nonempty = truthiness of `self[instance]`, many = `self.many` -/
def connect (present nonempty many check : Bool) : Decision := %s

/-- `Link.disconnect(instance, another_instance)` -/
def disconnect (present nonempty : Bool) : Decision := %s

end Pyx.Gen.LinkDecisions
''' % (connect, disconnect)
    return [('LinkDecisions.lean', text)]
