"""xtuml/meta.py -> lean/Gen/RelateShape.lean:
Reads, with `ast` only, the statement structure of the functions one level above Link.connect/disconnect
and emits it as a small first-order IR:

  MetaModel.define_association   which class each of the two links starts from / leads to, which of the
                                 caller's many / conditional / phrase arguments it receives, and the order in
                                 which the two links are added (= their order in `metaclass.links`)
  _find_link                     the loop body as a list of guarded actions (skip this association /
                                 found, arguments as given / found, arguments swapped) over named atoms,
                                 and the exception raised when the loop ends
  relate, unrelate               the arguments handed to _find_link, then the guards
                                 `for inst in (a, b): if inst in get_metaclass(inst).deleted: raise <Exc>` (relate: a
                                 deleted instance must not become reachable again), then the list of guarded link calls
                                 `if not ass.<link>.<op>(a, b): <undo calls>; raise <Exc>`, then `return True`
  MetaClass.delete, delete       the statement list: storage test / removal (and whether the removed instance is added
                                 to `self.deleted`) / exception, the `disconnect` flag, the loop over
                                 `self.links.values()` with its inner unrelate call
  MetaClass.new                  the order of its phases (construct, append to storage, defaults, positional,
                                 keywords, batch relate, …) and the argument order of the batch relate call
  Association.formalize          the property getter `fget` (which link it navigates, when it falls back to
                                 the previously installed property, what it returns) and the wrapping loop

Every statement outside the expected shape raises (= broken tie).  Props/C02.lean proves that the model's
findLink / relate / unrelate / linksOf / delete / new / readLayers equal a generic interpretation of this IR,
so reordering the two connects, changing the direction test, the undo, or which links delete clears changes
the IR and breaks those theorems before any test runs.
"""
import ast
import os

OUTPUTS = ['RelateShape.lean']


# --------------------------------------------------------------------------- helpers

def _tup(node):
    """source of a (possibly parenthesised) tuple or single expression, without the outer parentheses"""
    if isinstance(node, ast.Tuple):
        return ', '.join(ast.unparse(e) for e in node.elts)
    return ast.unparse(node)


def _for_head(st):
    return 'for %s in %s:' % (_tup(st.target), ast.unparse(st.iter))


def _strip_doc(body):
    body = list(body)
    if body and isinstance(body[0], ast.Expr) and isinstance(getattr(body[0], 'value', None), ast.Constant) \
            and isinstance(body[0].value.value, str):
        body = body[1:]
    return body


def _func(tree, name):
    for n in tree.body:
        if isinstance(n, ast.FunctionDef) and n.name == name:
            return n
    raise ValueError('function %s not found' % name)


def _method(tree, cls, name):
    for n in tree.body:
        if isinstance(n, ast.ClassDef) and n.name == cls:
            for f in n.body:
                if isinstance(f, ast.FunctionDef) and f.name == name:
                    return f
    raise ValueError('%s.%s not found' % (cls, name))


def _bexp(n, atoms, where):
    src = ast.unparse(n)
    if src in atoms:
        return '(.atom .%s)' % atoms[src]
    if isinstance(n, ast.BoolOp):
        ctor = '.and' if isinstance(n.op, ast.And) else '.or'
        out = _bexp(n.values[-1], atoms, where)
        for v in reversed(n.values[:-1]):
            out = '(%s %s %s)' % (ctor, _bexp(v, atoms, where), out)
        return out
    if isinstance(n, ast.UnaryOp) and isinstance(n.op, ast.Not):
        return '(.not %s)' % _bexp(n.operand, atoms, where)
    raise ValueError('%s: condition outside the translated fragment: %s' % (where, src))


EXC = {'RelateException': 'relateExc', 'UnrelateException': 'unrelateExc', 'UnknownLinkException': 'unknownLink',
       'DeleteException': 'deleteExc'}


def _raise_name(st, where):
    if not isinstance(st, ast.Raise) or st.exc is None:
        raise ValueError('%s: expected a raise, found: %s' % (where, ast.unparse(st)))
    e = st.exc
    name = e.func.id if isinstance(e, ast.Call) and isinstance(e.func, ast.Name) else getattr(e, 'id', None)
    if name not in EXC:
        raise ValueError('%s: raises %s, which is not one of %s' % (where, name, sorted(EXC)))
    return '.' + EXC[name]


# --------------------------------------------------------------------------- define_association

def _define_association(tree):
    f = _method(tree, 'MetaModel', 'define_association')
    params = [a.arg for a in f.args.args]
    expect = ['self', 'rel_id', 'source_kind', 'source_keys', 'source_many', 'source_conditional', 'source_phrase',
              'target_kind', 'target_keys', 'target_many', 'target_conditional', 'target_phrase']
    if params != expect:
        raise ValueError('define_association: unexpected parameters %s' % params)
    classes = {}
    links = []          # in the order of the add_link calls
    assoc_args = None
    for st in _strip_doc(f.body):
        src = ast.unparse(st)
        if isinstance(st, ast.Assign) and len(st.targets) == 1 and isinstance(st.targets[0], ast.Name) \
                and isinstance(st.value, ast.Call):
            tgt = st.targets[0].id
            call = st.value
            fn = ast.unparse(call.func)
            if fn == 'self.find_metaclass' and tgt in ('source_metaclass', 'target_metaclass'):
                arg = ast.unparse(call.args[0])
                if arg not in ('source_kind', 'target_kind'):
                    raise ValueError('define_association: %s' % src)
                classes[tgt] = 'source' if arg == 'source_kind' else 'target'
                continue
            if fn.endswith('.add_link') and tgt in ('source_link', 'target_link'):
                frm = fn[:-len('.add_link')]
                if frm not in classes or len(call.args) != 2 or ast.unparse(call.args[1]) != 'rel_id':
                    raise ValueError('define_association: add_link call of unexpected shape: %s' % src)
                to = ast.unparse(call.args[0])
                kw = {k.arg: ast.unparse(k.value) for k in call.keywords}
                if sorted(kw) != ['conditional', 'many', 'phrase'] or to not in classes:
                    raise ValueError('define_association: add_link call of unexpected shape: %s' % src)
                ends = {'source_many': 'source', 'target_many': 'target', 'source_phrase': 'source',
                        'target_phrase': 'target', 'source_conditional': 'source', 'target_conditional': 'target'}
                for k, suffix in (('many', '_many'), ('phrase', '_phrase'), ('conditional', '_conditional')):
                    if kw[k] not in ends or not kw[k].endswith(suffix):
                        raise ValueError('define_association: %s=%s' % (k, kw[k]))
                links.append((tgt, classes[frm], classes[to], ends[kw['many']], ends[kw['conditional']], ends[kw['phrase']]))
                continue
            if fn == 'Association' and tgt == 'ass':
                assoc_args = [ast.unparse(a) for a in call.args]
                continue
        # statements that do not concern the links: rel id normalisation, argument checks, key maps, registration
        if isinstance(st, ast.If) or isinstance(st, ast.For):
            continue
        if src in ('source_link.key_map = dict(zip(source_keys, target_keys))',
                   'target_link.key_map = dict(zip(target_keys, source_keys))',
                   'self.associations.append(ass)', 'return ass'):
            continue
        raise ValueError('define_association: statement outside the expected shape: %s' % src)
    if [l[0] for l in links] != ['source_link', 'target_link'] and [l[0] for l in links] != ['target_link', 'source_link']:
        raise ValueError('define_association: expected exactly the two add_link calls, found %s' % [l[0] for l in links])
    if assoc_args != ['rel_id', 'source_keys', 'source_link', 'target_keys', 'target_link']:
        raise ValueError('define_association: Association(...) called with %s' % assoc_args)
    return links


# --------------------------------------------------------------------------- _find_link

FIND_ATOMS = {
    'ass.rel_id != rel_id': 'relDiffers',
    'ass.source_link.from_metaclass.kind == metaclass1.kind': 'srcFrom1',
    'ass.source_link.to_metaclass.kind == metaclass2.kind': 'srcTo2',
    'ass.source_link.phrase == phrase': 'srcPhrase',
    'ass.target_link.from_metaclass.kind == metaclass1.kind': 'tgtFrom1',
    'ass.target_link.to_metaclass.kind == metaclass2.kind': 'tgtTo2',
    'ass.target_link.phrase == phrase': 'tgtPhrase',
}


def _find_link(tree):
    f = _func(tree, '_find_link')
    if [a.arg for a in f.args.args] != ['inst1', 'inst2', 'rel_id', 'phrase']:
        raise ValueError('_find_link: unexpected parameters')
    body = _strip_doc(f.body)
    pre = ['metaclass1 = get_metaclass(inst1)', 'metaclass2 = get_metaclass(inst2)',
           "if isinstance(rel_id, int):\n    rel_id = 'R%d' % rel_id"]
    if [ast.unparse(s) for s in body[:3]] != pre or len(body) != 5:
        raise ValueError('_find_link: unexpected statements before the loop')
    loop, last = body[3], body[4]
    if not isinstance(loop, ast.For) or ast.unparse(loop.target) != 'ass' or loop.orelse \
            or ast.unparse(loop.iter) != 'metaclass1.metamodel.associations':
        raise ValueError('_find_link: loop of unexpected shape')
    guards = []
    for st in loop.body:
        if not isinstance(st, ast.If) or st.orelse or len(st.body) != 1:
            raise ValueError('_find_link: loop statement outside the expected shape: %s' % ast.unparse(st))
        cond = _bexp(st.test, FIND_ATOMS, '_find_link')
        act = st.body[0]
        if isinstance(act, ast.Continue):
            guards.append((cond, '.next'))
        elif isinstance(act, ast.Return) and _tup(act.value) == 'inst1, inst2, ass':
            guards.append((cond, '.found false'))
        elif isinstance(act, ast.Return) and _tup(act.value) == 'inst2, inst1, ass':
            guards.append((cond, '.found true'))
        else:
            raise ValueError('_find_link: action outside the expected shape: %s' % ast.unparse(act))
    return guards, _raise_name(last, '_find_link')


# --------------------------------------------------------------------------- relate / unrelate

ARGS = {'inst1': '.inst1', 'inst2': '.inst2', 'from_instance': '.fromInst', 'to_instance': '.toInst'}


def _link_call(node, where):
    """ass.<source_link|target_link>.<connect|disconnect>(a, b)"""
    if not isinstance(node, ast.Call) or node.keywords or len(node.args) != 2 or not isinstance(node.func, ast.Attribute):
        raise ValueError('%s: link call of unexpected shape: %s' % (where, ast.unparse(node)))
    recv = ast.unparse(node.func.value)
    op = node.func.attr
    if recv not in ('ass.source_link', 'ass.target_link') or op not in ('connect', 'disconnect'):
        raise ValueError('%s: link call of unexpected shape: %s' % (where, ast.unparse(node)))
    a = [ast.unparse(x) for x in node.args]
    if a[0] not in ARGS or a[1] not in ARGS:
        raise ValueError('%s: link call arguments %s' % (where, a))
    return '{ link := .%s, op := .%s, a1 := %s, a2 := %s }' % (
        'sourceLink' if recv == 'ass.source_link' else 'targetLink', op, ARGS[a[0]], ARGS[a[1]])


def _pair_prog(tree, name):
    f = _func(tree, name)
    if [a.arg for a in f.args.args] != ['from_instance', 'to_instance', 'rel_id', 'phrase'] \
            or [ast.unparse(d) for d in f.args.defaults] != ["''"]:
        raise ValueError('%s: unexpected parameters' % name)
    body = _strip_doc(f.body)
    if len(body) < 3 or ast.unparse(body[0]) != 'if None in [from_instance, to_instance]:\n    return False':
        raise ValueError('%s: missing the None guard' % name)
    st = body[1]
    if not (isinstance(st, ast.Assign) and _tup(st.targets[0]) == 'inst1, inst2, ass'
            and isinstance(st.value, ast.Call) and ast.unparse(st.value.func) == '_find_link' and not st.value.keywords):
        raise ValueError('%s: expected `inst1, inst2, ass = _find_link(...)`: %s' % (name, ast.unparse(st)))
    fargs = [ast.unparse(a) for a in st.value.args]
    if len(fargs) != 4 or fargs[0] not in ARGS or fargs[1] not in ARGS or fargs[2:] != ['rel_id', 'phrase']:
        raise ValueError('%s: _find_link called with %s' % (name, fargs))
    if ast.unparse(body[-1]) != 'return True':
        raise ValueError('%s: does not end with `return True`' % name)
    steps = []
    guards = []
    for st in body[2:-1]:
        if isinstance(st, ast.For):
            # for inst in (<args>): if inst in get_metaclass(inst).deleted: raise <Exc>
            if steps or st.orelse or not isinstance(st.target, ast.Name) or not isinstance(st.iter, ast.Tuple) \
                    or len(st.body) != 1 or not isinstance(st.body[0], ast.If) or st.body[0].orelse \
                    or len(st.body[0].body) != 1:
                raise ValueError('%s: loop outside the expected shape: %s' % (name, ast.unparse(st)))
            v = st.target.id
            over = [ast.unparse(e) for e in st.iter.elts]
            if any(o not in ARGS for o in over) or \
                    ast.unparse(st.body[0].test) != '%s in get_metaclass(%s).deleted' % (v, v):
                raise ValueError('%s: guard loop of unexpected shape: %s' % (name, ast.unparse(st)))
            guards.append('{ over := [%s], raises := %s }' % (', '.join(ARGS[o] for o in over),
                                                             _raise_name(st.body[0].body[0], name)))
            continue
        if not (isinstance(st, ast.If) and not st.orelse and isinstance(st.test, ast.UnaryOp)
                and isinstance(st.test.op, ast.Not)):
            raise ValueError('%s: statement outside the expected shape: %s' % (name, ast.unparse(st)))
        call = _link_call(st.test.operand, name)
        undo = []
        for u in st.body[:-1]:
            if not isinstance(u, ast.Expr):
                raise ValueError('%s: undo statement outside the expected shape: %s' % (name, ast.unparse(u)))
            undo.append(_link_call(u.value, name))
        exc = _raise_name(st.body[-1], name)
        steps.append('{ call := %s, undo := [%s], raises := %s }' % (call, ', '.join(undo), exc))
    return '{ findArgs := (%s, %s),\n    guards := [%s],\n    steps := [ %s ] }' % (
        ARGS[fargs[0]], ARGS[fargs[1]], ', '.join(guards), ',\n               '.join(steps))


# --------------------------------------------------------------------------- delete

def _delete(tree):
    f = _method(tree, 'MetaClass', 'delete')
    if [a.arg for a in f.args.args] != ['self', 'instance', 'disconnect'] or [ast.unparse(d) for d in f.args.defaults] != ['True']:
        raise ValueError('MetaClass.delete: unexpected parameters')
    out = []
    for st in _strip_doc(f.body):
        src = ast.unparse(st)
        if isinstance(st, ast.If) and ast.unparse(st.test) == 'instance in self.storage':
            then = [ast.unparse(s) for s in st.body]
            if then == ['self.storage.remove(instance)']:
                marks = 'false'
            elif then == ['self.storage.remove(instance)', 'self.deleted.add(instance)']:
                marks = 'true'
            else:
                raise ValueError('MetaClass.delete: storage test of unexpected shape: %s' % src)
            if len(st.orelse) != 1:
                raise ValueError('MetaClass.delete: storage test of unexpected shape: %s' % src)
            out.append('.removeFromStorageElseRaise %s %s' % (_raise_name(st.orelse[0], 'MetaClass.delete'), marks))
        elif src == 'if not disconnect:\n    return':
            out.append('.returnUnlessDisconnect')
        elif isinstance(st, ast.For) and ast.unparse(st.target) == 'link' and ast.unparse(st.iter) == 'self.links.values()' \
                and not st.orelse:
            inner = list(st.body)
            skip = False
            if inner and ast.unparse(inner[0]) == 'if instance not in link:\n    continue':
                skip = True
                inner = inner[1:]
            if len(inner) != 1 or not isinstance(inner[0], ast.For) or ast.unparse(inner[0].target) != 'other' \
                    or ast.unparse(inner[0].iter) != 'link[instance]' or inner[0].orelse or len(inner[0].body) != 1 \
                    or not isinstance(inner[0].body[0], ast.Expr) or not isinstance(inner[0].body[0].value, ast.Call):
                raise ValueError('MetaClass.delete: link loop of unexpected shape: %s' % src)
            call = inner[0].body[0].value
            args = [ast.unparse(a) for a in call.args]
            dargs = {'instance': '.instance', 'other': '.other'}
            if ast.unparse(call.func) != 'unrelate' or call.keywords or len(args) != 4 or args[0] not in dargs \
                    or args[1] not in dargs or args[2:] != ['link.rel_id', 'link.phrase']:
                raise ValueError('MetaClass.delete: inner call of unexpected shape: %s' % ast.unparse(call))
            out.append('.forLinksUnrelate %s %s %s' % ('true' if skip else 'false', dargs[args[0]], dargs[args[1]]))
        else:
            raise ValueError('MetaClass.delete: statement outside the expected shape: %s' % src)
    g = _func(tree, 'delete')
    gb = [ast.unparse(s) for s in _strip_doc(g.body)]
    if [a.arg for a in g.args.args] != ['instance', 'disconnect'] or len(gb) != 2 \
            or not gb[0].startswith('if not isinstance(instance, Class):\n    raise DeleteException(') \
            or gb[1] != 'return get_metaclass(instance).delete(instance, disconnect)':
        raise ValueError('delete: unexpected shape: %s' % gb)
    return out


# --------------------------------------------------------------------------- new

def _new(tree):
    f = _method(tree, 'MetaClass', 'new')
    phases = []
    relate_args = None
    for st in _strip_doc(f.body):
        src = ast.unparse(st)
        head = _for_head(st) if isinstance(st, ast.For) else src.split('\n')[0]
        if src == 'inst = self.clazz()':
            phases.append('.construct')
        elif src == 'self.storage.append(inst)':
            phases.append('.appendStorage')
        elif src == 'referential_attributes = dict()':
            continue
        elif head == 'for name, ty in self.attributes:':
            if 'self.default_value(ty)' not in src:
                raise ValueError('MetaClass.new: defaults loop of unexpected shape')
            phases.append('.defaults')
        elif head == 'for attr, value in zip(self.attributes, args):':
            phases.append('.positional')
        elif head == 'for name, value in kwargs.items():':
            phases.append('.keywords')
        elif src == 'if not referential_attributes:\n    return inst':
            phases.append('.returnIfNoReferentials')
        elif head == 'for link in self.links.values():':
            calls = [n for n in ast.walk(st) if isinstance(n, ast.Call) and ast.unparse(n.func) == 'relate']
            if len(calls) != 1 or calls[0].keywords:
                raise ValueError('MetaClass.new: expected exactly one relate call in the batch relate')
            a = [ast.unparse(x) for x in calls[0].args]
            names = {'other_inst': '.other', 'inst': '.newInst'}
            if len(a) != 4 or a[0] not in names or a[1] not in names or a[2:] != ['link.rel_id', 'link.phrase']:
                raise ValueError('MetaClass.new: batch relate called with %s' % a)
            relate_args = (names[a[0]], names[a[1]])
            phases.append('.batchRelate')
        elif head == 'for name, value in referential_attributes.items():':
            phases.append('.warnUnassigned')
        elif src == 'return inst':
            phases.append('.returnInst')
        else:
            raise ValueError('MetaClass.new: statement outside the expected shape: %s' % head)
    if relate_args is None:
        raise ValueError('MetaClass.new: no batch relate found')
    return phases, relate_args


# --------------------------------------------------------------------------- formalize / fget

def _formalize(tree):
    f = _method(tree, 'Association', 'formalize')
    fget = [n for n in f.body if isinstance(n, ast.FunctionDef) and n.name == 'fget']
    if len(fget) != 1 or [a.arg for a in fget[0].args.args] != ['inst', 'ref_name', 'alt_prop']:
        raise ValueError('formalize: fget not found or unexpected parameters')
    b = fget[0].body
    if len(b) != 3:
        raise ValueError('formalize.fget: expected three statements')
    s0 = ast.unparse(b[0])
    if s0 == 'other_inst = self.target_link.navigate_one(inst)':
        link = '.targetLink'
    elif s0 == 'other_inst = self.source_link.navigate_one(inst)':
        link = '.sourceLink'
    else:
        raise ValueError('formalize.fget: first statement: %s' % s0)
    st = b[1]
    if not isinstance(st, ast.If) or st.orelse or [ast.unparse(x) for x in st.body] != ['return alt_prop.fget(inst)']:
        raise ValueError('formalize.fget: fallback of unexpected shape: %s' % ast.unparse(st))
    cond = _bexp(st.test, {'other_inst is None': 'otherIsNone', 'alt_prop': 'hasAlt'}, 'formalize.fget')
    if ast.unparse(b[2]) != 'return getattr(other_inst, ref_name, None)':
        raise ValueError('formalize.fget: result: %s' % ast.unparse(b[2]))
    loops = [n for n in f.body if isinstance(n, ast.For)]
    if len(loops) != 1:
        raise ValueError('formalize: expected one wrapping loop')
    lp = loops[0]
    want = ['prop = getattr(source_class.clazz, ref_key, None)',
            'prop = property(partial(fget, ref_name=primary_key, alt_prop=prop), '
            'partial(fset, name=ref_key, ref_name=primary_key, alt_prop=prop))',
            'setattr(source_class.clazz, ref_key, prop)']
    guard = 'if not isinstance(prop, property):\n    prop = None'
    got = [ast.unparse(s) for s in lp.body]
    if _tup(lp.target) != 'ref_key, primary_key':
        raise ValueError('formalize: wrapping loop of unexpected shape')
    if got == want:
        alt_guard = 'false'
    elif got == [want[0], guard] + want[1:]:
        alt_guard = 'true'          # only a PROPERTY installed earlier under the name becomes alt_prop
    else:
        raise ValueError('formalize: wrapping loop of unexpected shape: %s' % got)
    it = ast.unparse(lp.iter)
    if it == 'zip(self.source_keys, self.target_keys)':
        zipped = '(.source, .target)'
    elif it == 'zip(self.target_keys, self.source_keys)':
        zipped = '(.target, .source)'
    else:
        raise ValueError('formalize: wrapping loop iterates %s' % it)
    if 'source_class = self.source_link.to_metaclass' not in [ast.unparse(s) for s in f.body]:
        raise ValueError('formalize: source_class is not source_link.to_metaclass')
    return link, cond, zipped, alt_guard


# --------------------------------------------------------------------------- emit

HEADER = '''/-
  GENERATED by translator/gen_relateshape.py from xtuml/meta.py — do not edit.
  The statement structure of MetaModel.define_association, _find_link, relate, unrelate, MetaClass.delete /
  delete, MetaClass.new and Association.formalize's property getter, as a first-order IR.
  Props/C02.lean proves that the model (PyxModel/Meta.lean) equals the generic interpretation of this IR.
-/
namespace Pyx.Gen.RelateShape

inductive BExp (α : Type) where
  | atom (a : α)
  | and (l r : BExp α)
  | or (l r : BExp α)
  | not (e : BExp α)
  deriving Repr

/-- the two ends of `define_association(rel_id, source_…, target_…)` -/
inductive End where
  | source | target
  deriving DecidableEq, Repr

/-- one `add_link` call of define_association: `<fromCls>_metaclass.add_link(<toCls>_metaclass, rel_id,
    many=<many>_many, phrase=<phrase>_phrase, conditional=<cond>_conditional)` -/
structure LinkDef where
  isSourceLink : Bool
  fromCls : End
  toCls : End
  many : End
  cond : End
  phrase : End
  deriving Repr

inductive FindAtom where
  | relDiffers        -- ass.rel_id != rel_id
  | srcFrom1          -- ass.source_link.from_metaclass.kind == metaclass1.kind
  | srcTo2            -- ass.source_link.to_metaclass.kind == metaclass2.kind
  | srcPhrase         -- ass.source_link.phrase == phrase
  | tgtFrom1 | tgtTo2 | tgtPhrase
  deriving DecidableEq, Repr

inductive FindAct where
  | next                      -- continue with the next association
  | found (swapped : Bool)    -- return (inst1, inst2, ass) / (inst2, inst1, ass)
  deriving Repr

inductive Exc where
  | relateExc | unrelateExc | unknownLink | deleteExc
  deriving DecidableEq, Repr

inductive Arg where
  | inst1 | inst2             -- the pair as returned by _find_link
  | fromInst | toInst         -- the caller's arguments
  deriving DecidableEq, Repr

inductive LinkSel where
  | sourceLink | targetLink
  deriving DecidableEq, Repr

inductive LinkOp where
  | connect | disconnect
  deriving DecidableEq, Repr

structure Call where
  link : LinkSel
  op : LinkOp
  a1 : Arg
  a2 : Arg
  deriving Repr

/-- `if not <call>: <undo…>; raise <raises>` -/
structure GuardedCall where
  call : Call
  undo : List Call
  raises : Exc
  deriving Repr

/-- `for inst in (<over…>): if inst in get_metaclass(inst).deleted: raise <raises>` -/
structure DeletedGuard where
  over : List Arg
  raises : Exc
  deriving Repr

structure PairProg where
  findArgs : Arg × Arg
  guards : List DeletedGuard          -- between `_find_link` and the link calls
  steps : List GuardedCall
  deriving Repr

inductive DArg where
  | instance | other
  deriving DecidableEq, Repr

inductive DStmt where
  | removeFromStorageElseRaise (e : Exc) (addsToDeleted : Bool)
      -- if instance in self.storage: self.storage.remove(instance) [; self.deleted.add(instance)] else: raise
  | returnUnlessDisconnect                    -- if not disconnect: return
  | forLinksUnrelate (skipAbsent : Bool) (a1 a2 : DArg)
      -- for link in self.links.values(): [if instance not in link: continue]
      --     for other in link[instance]: unrelate(a1, a2, link.rel_id, link.phrase)
  deriving Repr

inductive NewPhase where
  | construct | appendStorage | defaults | positional | keywords | returnIfNoReferentials | batchRelate
  | warnUnassigned | returnInst
  deriving DecidableEq, Repr

inductive NewArg where
  | other | newInst
  deriving DecidableEq, Repr

inductive FgetAtom where
  | otherIsNone | hasAlt
  deriving DecidableEq, Repr

'''


def generate(repo_dir):
    tree = ast.parse(open(os.path.join(repo_dir, 'xtuml', 'meta.py'), encoding='utf-8').read())
    links = _define_association(tree)
    guards, find_exc = _find_link(tree)
    relate = _pair_prog(tree, 'relate')
    unrelate = _pair_prog(tree, 'unrelate')
    dstmts = _delete(tree)
    phases, relate_args = _new(tree)
    fget_link, fget_cond, zipped, alt_guard = _formalize(tree)
    out = [HEADER]
    out.append('/-- the two links of an association, in the order define_association adds them to the classes\' `links` -/')
    out.append('def linkDefs : List LinkDef :=\n  [ ' + ',\n    '.join(
        '{ isSourceLink := %s, fromCls := .%s, toCls := .%s, many := .%s, cond := .%s, phrase := .%s }'
        % ('true' if l[0] == 'source_link' else 'false', l[1], l[2], l[3], l[4], l[5]) for l in links) + ' ]\n')
    out.append('/-- `_find_link`: the loop body; when the loop ends `findElse` is raised -/')
    out.append('def findBody : List (BExp FindAtom × FindAct) :=\n  [ ' + ',\n    '.join('(%s, %s)' % g for g in guards) + ' ]\n')
    out.append('def findElse : Exc := %s\n' % find_exc)
    out.append('def relateProg : PairProg :=\n  %s\n' % relate)
    out.append('def unrelateProg : PairProg :=\n  %s\n' % unrelate)
    out.append('/-- `MetaClass.delete(instance, disconnect=True)`; `delete(instance)` forwards to it -/')
    out.append('def deleteBody : List DStmt :=\n  [ ' + ',\n    '.join(dstmts) + ' ]\n')
    out.append('/-- `MetaClass.new`: its phases in source order, and the batch relate call `relate(a1, a2, link.rel_id, link.phrase)` -/')
    out.append('def newPhases : List NewPhase := [ ' + ', '.join(phases) + ' ]\n')
    out.append('def newRelateArgs : NewArg × NewArg := (%s, %s)\n' % relate_args)
    out.append('/-- `fget`: `other = <fgetLink>.navigate_one(inst)`; if `fgetFallback` then the previously installed property,')
    out.append('    else `getattr(other, ref_name, None)`; the wrapping loop zips `fgetZip` as (installed under, ref_name) -/')
    out.append('def fgetLink : LinkSel := %s\n' % fget_link)
    out.append('def fgetFallback : BExp FgetAtom := %s\n' % fget_cond)
    out.append('def fgetZip : End × End := %s\n' % zipped)
    out.append('/-- `alt_prop` is what was installed earlier under the name ONLY if that is a property (a method or other class')
    out.append('    attribute of the same name is ignored): `hasAlt` means "an earlier formalisation of this attribute exists" -/')
    out.append('def fgetAltIsPropertyOnly : Bool := %s\n' % alt_guard)
    out.append('end Pyx.Gen.RelateShape\n')
    return [('RelateShape.lean', '\n'.join(out))]


if __name__ == '__main__':
    import sys
    for name, text in generate(sys.argv[1] if len(sys.argv) > 1 else '/repo'):
        sys.stdout.write(text)
