"""xtuml/meta.py + xtuml/load.py -> lean/Gen/LoadDecisions.lean:
Translates, with `ast` only (the repository is never imported), the DECISIONS of the batch loader:

  * the null rule `_is_null(instance, name)` (xtuml/meta.py): the chain
        value truthy -> not null ; value is None -> null ; then, by the UPPER-CASED declared type of the attribute,
        UNIQUE_ID -> value == 0 ; STRING -> len(value) == 0 ; anything else -> not null
    is emitted as the Lean function `isNull` over the atoms (truthy, isNone, upper-cased type name, value == 0,
    len(value) == 0); the type names are the literals of the source; that the type name and the attribute name are
    upper-cased before the comparison is part of the expected shape;
  * the key computation `Link.compute_lookup_key` / `Link.compute_index_key`: what is iterated (`key_map.items()` /
    `.keys()` / `.values()`), on which loop variable the null test is made, which loop variable names the key
    component and which one the value is read from, and the shape of the result (a frozenset of (name, value)
    pairs); emitted as two `KeySpec` records;
  * the direction of the batch relate in `ModelLoader.populate_connections`: which class's instances are indexed and
    which class's instances probe the index (by the link whose `to_metaclass` they are), which link computes the
    index / the lookup key, per what the index is cached, what a `None` key and a missing bucket do, and the two
    `connect` calls (link, argument order, `check`) — emitted as constants; `check=False` together with
    Gen/LinkDecisions.lean `connect` says what a second match on a non-many link does.

  * the batch relate at the end of `MetaClass.new` (the API route): for which links it is attempted (every name of
    `link.key_map.values()` given), its own null test of a referential value (an or/and expression over
    `ref_value is None`, the UPPER-CASED declared type, `ref_value == 0`, `ref_value == ''`), what a null value does
    (`kwargs = None; break`: the whole link is skipped), which loop variable names the query attribute and which one
    the value is taken from, that an empty query is skipped, and the argument order of the `relate` call.

Every statement of the translated parts must have the expected shape (statement by statement, compared through
`ast.unparse`); anything else raises (= broken tie).  Props/C03.lean proves that the model's functions equal the
generated ones.
"""
import ast
import os

OUTPUTS = ['LoadDecisions.lean']


def _func(tree, name, cls=None):
    body = tree.body
    if cls is not None:
        for n in tree.body:
            if isinstance(n, ast.ClassDef) and n.name == cls:
                body = n.body
                break
        else:
            raise ValueError('class %s not found' % cls)
    found = [n for n in body if isinstance(n, ast.FunctionDef) and n.name == name]
    if len(found) > 1:
        raise ValueError('%s%s is defined %d times' % (cls + '.' if cls else '', name, len(found)))
    # the name must not be rebound later on (`_is_null = ...`, `Link.compute_index_key = ...`, a second class ...)
    for n in ast.walk(tree):
        if isinstance(n, (ast.Assign, ast.AugAssign, ast.AnnAssign)):
            for tg in (n.targets if isinstance(n, ast.Assign) else [n.target]):
                if (isinstance(tg, ast.Name) and tg.id == name and cls is None and n in tree.body) or \
                        (isinstance(tg, ast.Attribute) and tg.attr == name):
                    raise ValueError('%s is rebound by `%s`' % (name, ast.unparse(n)[:80]))
        elif isinstance(n, ast.Call) and isinstance(n.func, ast.Name) and n.func.id == 'setattr' and len(n.args) >= 2 \
                and isinstance(n.args[1], ast.Constant) and n.args[1].value == name:
            raise ValueError('%s is rebound by `%s`' % (name, ast.unparse(n)[:80]))
    if cls is not None and len([n for n in tree.body if isinstance(n, ast.ClassDef) and n.name == cls]) != 1:
        raise ValueError('class %s is defined more than once' % cls)
    if found:
        if [d for d in found[0].decorator_list if ast.unparse(d) != 'staticmethod']:
            raise ValueError('%s%s carries a decorator' % (cls + '.' if cls else '', name))
        return found[0]
    raise ValueError('%s%s not found' % (cls + '.' if cls else '', name))


def _body(fn):
    body = list(fn.body)
    if body and isinstance(body[0], ast.Expr) and isinstance(body[0].value, ast.Constant) and \
            isinstance(body[0].value.value, str):
        body = body[1:]
    return body


def _expect(st, src, where):
    got = ast.unparse(st)
    if got != src:
        raise ValueError('%s: expected `%s`, found `%s`' % (where, src, got.split('\n')[0][:80]))


def _chars(s):
    for c in s:
        if not (c.isalnum() or c == '_') or ord(c) > 126:
            raise ValueError('unexpected character in type name %r' % s)
    return '[' + ', '.join("'%s'" % c for c in s) + ']'


# ----------------------------------------------------------------------------- the null rule

def null_rule(tree):
    fn = _func(tree, '_is_null')
    if [a.arg for a in fn.args.args] != ['instance', 'name']:
        raise ValueError('_is_null: unexpected parameters')
    b = _body(fn)
    if len(b) != 5:
        raise ValueError('_is_null: expected 5 statements, found %d' % len(b))
    _expect(b[0], 'if name in instance.__dict__:\n    value = instance.__dict__[name]\nelse:\n    value = getattr(instance, name)',
            '_is_null (reading the value)')
    # if value: return False / elif value is None: return True
    st = b[1]
    if not (isinstance(st, ast.If) and ast.unparse(st.test) == 'value' and ast.unparse(st.body[0]) == 'return False'
            and len(st.body) == 1 and len(st.orelse) == 1 and isinstance(st.orelse[0], ast.If)
            and ast.unparse(st.orelse[0].test) == 'value is None' and len(st.orelse[0].body) == 1
            and ast.unparse(st.orelse[0].body[0]) == 'return True' and not st.orelse[0].orelse):
        raise ValueError('_is_null: expected `if value: return False / elif value is None: return True`')
    _expect(b[2], 'name = name.upper()', '_is_null (attribute names are compared upper-cased)')
    _expect(b[3], 'metaclass = get_metaclass(instance)', '_is_null')
    loop = b[4]
    if not (isinstance(loop, ast.For) and ast.unparse(loop.target) == '(attr_name, attr_ty)'
            and ast.unparse(loop.iter) == 'metaclass.attributes' and not loop.orelse and len(loop.body) == 3):
        raise ValueError('_is_null: expected `for attr_name, attr_ty in metaclass.attributes:` with 3 statements')
    _expect(loop.body[0], 'if attr_name.upper() != name:\n    continue', '_is_null (looking the attribute up)')
    _expect(loop.body[1], 'attr_ty = attr_ty.upper()', '_is_null (type names are compared upper-cased)')
    # the if / elif chain on the type name
    branches = []
    st = loop.body[2]
    while True:
        if not isinstance(st, ast.If):
            raise ValueError('_is_null: expected an if/elif chain on attr_ty')
        t = st.test
        if not (isinstance(t, ast.Compare) and ast.unparse(t.left) == 'attr_ty' and len(t.ops) == 1
                and isinstance(t.ops[0], ast.Eq) and isinstance(t.comparators[0], ast.Constant)
                and isinstance(t.comparators[0].value, str)):
            raise ValueError('_is_null: unexpected type test `%s`' % ast.unparse(t))
        if len(st.body) != 1 or not isinstance(st.body[0], ast.Return):
            raise ValueError('_is_null: a type branch must be a single return')
        branches.append((t.comparators[0].value, _null_result(st.body[0].value)))
        if len(st.orelse) == 1 and isinstance(st.orelse[0], ast.If):
            st = st.orelse[0]
            continue
        if len(st.orelse) == 1 and isinstance(st.orelse[0], ast.Return):
            default = _null_result(st.orelse[0].value)
            break
        raise ValueError('_is_null: the type chain must end with `else: return ...`')
    term = default
    for name, res in reversed(branches):
        term = 'if tyUpper = %s then %s else %s' % (_chars(name), res, term)
    return 'if truthy then false else if isNone then true else ' + term


def _null_result(n):
    src = ast.unparse(n)
    table = {'value == 0': 'eqZero', 'len(value) == 0': 'lenZero', 'False': 'false', 'True': 'true',
             'not value': '(!truthy)'}
    if src not in table:
        raise ValueError('_is_null: result outside the translated fragment: %s' % src)
    return table[src]


# ----------------------------------------------------------------------------- key computation

def key_spec(tree, name, inst):
    fn = _func(tree, name, 'Link')
    if [a.arg for a in fn.args.args] != ['self', inst]:
        raise ValueError('Link.%s: unexpected parameters' % name)
    b = _body(fn)
    if len(b) != 3:
        raise ValueError('Link.%s: expected 3 statements, found %d' % (name, len(b)))
    _expect(b[0], 'kwargs = dict()', 'Link.%s' % name)
    loop = b[1]
    if not (isinstance(loop, ast.For) and not loop.orelse and len(loop.body) == 2):
        raise ValueError('Link.%s: expected a for loop with two statements' % name)
    it = ast.unparse(loop.iter)
    iters = {'self.key_map.items()': 'items', 'self.key_map.keys()': 'keys', 'self.key_map.values()': 'values',
             'self.key_map': 'keys'}
    if it not in iters:
        raise ValueError('Link.%s: unexpected iteration over `%s`' % (name, it))
    tgt = loop.target
    if isinstance(tgt, ast.Tuple) and len(tgt.elts) == 2 and all(isinstance(e, ast.Name) for e in tgt.elts):
        if iters[it] != 'items':
            raise ValueError('Link.%s: two loop variables over `%s`' % (name, it))
        var = {tgt.elts[0].id: 'fst', tgt.elts[1].id: 'snd'}
    elif isinstance(tgt, ast.Name):
        if iters[it] == 'items':
            raise ValueError('Link.%s: one loop variable over items()' % name)
        var = {tgt.id: 'fst'}
    else:
        raise ValueError('Link.%s: unexpected loop target' % name)
    # if _is_null(<inst>, <v>): return None
    st = loop.body[0]
    if not (isinstance(st, ast.If) and not st.orelse and len(st.body) == 1 and ast.unparse(st.body[0]) == 'return None'
            and isinstance(st.test, ast.Call) and ast.unparse(st.test.func) == '_is_null' and len(st.test.args) == 2
            and ast.unparse(st.test.args[0]) == inst and isinstance(st.test.args[1], ast.Name)
            and st.test.args[1].id in var):
        raise ValueError('Link.%s: expected `if _is_null(%s, <loop variable>): return None`' % (name, inst))
    null_on = var[st.test.args[1].id]
    # if v in inst.__dict__: kwargs[k] = inst.__dict__[v] else: kwargs[k] = getattr(inst, v)
    st = loop.body[1]
    ok = isinstance(st, ast.If) and len(st.body) == 1 and len(st.orelse) == 1 and \
        isinstance(st.body[0], ast.Assign) and isinstance(st.orelse[0], ast.Assign)
    if ok:
        a1, a2 = st.body[0], st.orelse[0]
        t1, t2 = a1.targets[0], a2.targets[0]
        ok = isinstance(t1, ast.Subscript) and isinstance(t2, ast.Subscript) and ast.unparse(t1) == ast.unparse(t2) and \
            ast.unparse(t1.value) == 'kwargs' and isinstance(t1.slice, ast.Name) and t1.slice.id in var
    if ok:
        kname = t1.slice.id
        vals = [v for v in var if ast.unparse(st.test) == '%s in %s.__dict__' % (v, inst)
                and ast.unparse(a1.value) == '%s.__dict__[%s]' % (inst, v)
                and ast.unparse(a2.value) == 'getattr(%s, %s)' % (inst, v)]
        ok = len(vals) == 1
    if not ok:
        raise ValueError('Link.%s: expected `if v in %s.__dict__: kwargs[k] = %s.__dict__[v] else: kwargs[k] = getattr(%s, v)`'
                         % (name, inst, inst, inst))
    res = ast.unparse(b[2])
    results = {'return frozenset(tuple(kwargs.items()))': 'frozensetOfItems', 'return frozenset(kwargs.items())': 'frozensetOfItems'}
    if res not in results:
        raise ValueError('Link.%s: unexpected result `%s`' % (name, res))
    return '⟨.%s, .%s, .%s, .%s, .%s⟩' % (iters[it], null_on, var[kname], var[vals[0]], results[res])


# ----------------------------------------------------------------------------- direction of the batch relate

def batch_relate(tree):
    fn = _func(tree, 'populate_connections', 'ModelLoader')
    b = _body(fn)
    if len(b) != 3:
        raise ValueError('populate_connections: expected 3 top-level statements, found %d' % len(b))
    _expect(b[0], 'storage = dict()', 'populate_connections')
    loop = b[1]
    if not (isinstance(loop, ast.For) and ast.unparse(loop.target) == 'ass' and
            ast.unparse(loop.iter) == 'metamodel.associations' and not loop.orelse and len(loop.body) == 6):
        raise ValueError('populate_connections: expected `for ass in metamodel.associations:` with 6 statements')
    s = loop.body
    cls = {}
    for st in s[:2]:
        if not (isinstance(st, ast.Assign) and isinstance(st.targets[0], ast.Name)):
            raise ValueError('populate_connections: expected the two class assignments first')
        v = ast.unparse(st.value)
        side = {'ass.source_link.to_metaclass': 'source', 'ass.target_link.to_metaclass': 'target'}.get(v)
        if side is None:
            raise ValueError('populate_connections: unexpected class `%s`' % v)
        cls[st.targets[0].id] = side
    if sorted(cls.values()) != ['source', 'target']:
        raise ValueError('populate_connections: the two classes of the association are not both named')
    # the class whose instances are indexed
    st = s[2]
    if not (isinstance(st, ast.If) and not st.orelse and len(st.body) == 1 and isinstance(st.test, ast.Compare)
            and len(st.test.ops) == 1 and isinstance(st.test.ops[0], ast.NotIn) and isinstance(st.test.left, ast.Name)
            and st.test.left.id in cls and ast.unparse(st.test.comparators[0]) == 'storage'
            and ast.unparse(st.body[0]) == 'storage[%s] = dict()' % st.test.left.id):
        raise ValueError('populate_connections: expected `if <class> not in storage: storage[<class>] = dict()`')
    icls = st.test.left.id
    # the cache key of the index
    st = s[3]
    if not (isinstance(st, ast.Assign) and ast.unparse(st.targets[0]) == 'link_key'):
        raise ValueError('populate_connections: expected the assignment of link_key')
    lk = ast.unparse(st.value)
    lks = {'frozenset(ass.source_link.key_map.values())': ('sourceLink', 'values'),
           'frozenset(ass.source_link.key_map.keys())': ('sourceLink', 'keys'),
           'frozenset(ass.target_link.key_map.values())': ('targetLink', 'values'),
           'frozenset(ass.target_link.key_map.keys())': ('targetLink', 'keys')}
    if lk not in lks:
        raise ValueError('populate_connections: unexpected link_key `%s`' % lk)
    # building the index
    st = s[4]
    if not (isinstance(st, ast.If) and not st.orelse and ast.unparse(st.test) == 'link_key not in storage[%s]' % icls
            and len(st.body) == 2 and ast.unparse(st.body[0]) == 'storage[%s][link_key] = dict()' % icls):
        raise ValueError('populate_connections: expected the index to be built once per (class, link_key)')
    il = st.body[1]
    if not (isinstance(il, ast.For) and ast.unparse(il.target) == 'other_inst' and ast.unparse(il.iter) == '%s.storage' % icls
            and not il.orelse and len(il.body) == 4):
        raise ValueError('populate_connections: expected `for other_inst in %s.storage:` with 4 statements' % icls)
    ik = ast.unparse(il.body[0])
    iks = {'inst_key = ass.source_link.compute_index_key(other_inst)': 'sourceLink',
           'inst_key = ass.target_link.compute_index_key(other_inst)': 'targetLink'}
    if ik not in iks:
        raise ValueError('populate_connections: unexpected index key `%s`' % ik)
    _expect(il.body[1], 'if inst_key is None:\n    continue', 'populate_connections (index: null keys are skipped)')
    _expect(il.body[2], 'if inst_key not in storage[%s][link_key]:\n    storage[%s][link_key][inst_key] = xtuml.OrderedSet()'
            % (icls, icls), 'populate_connections (index: ordered buckets)')
    _expect(il.body[3], 'storage[%s][link_key][inst_key].add(other_inst)' % icls, 'populate_connections (index)')
    # probing
    pl = s[5]
    if not (isinstance(pl, ast.For) and ast.unparse(pl.target) == 'inst' and isinstance(pl.iter, ast.Attribute)
            and pl.iter.attr == 'storage' and isinstance(pl.iter.value, ast.Name) and pl.iter.value.id in cls
            and not pl.orelse and len(pl.body) == 4):
        raise ValueError('populate_connections: expected `for inst in <class>.storage:` with 4 statements')
    pcls = pl.iter.value.id
    pk = ast.unparse(pl.body[0])
    pks = {'inst_key = ass.source_link.compute_lookup_key(inst)': 'sourceLink',
           'inst_key = ass.target_link.compute_lookup_key(inst)': 'targetLink'}
    if pk not in pks:
        raise ValueError('populate_connections: unexpected lookup key `%s`' % pk)
    _expect(pl.body[1], 'if inst_key is None:\n    continue', 'populate_connections (probe: null keys are skipped)')
    _expect(pl.body[2], 'if inst_key not in storage[%s][link_key]:\n    continue' % icls,
            'populate_connections (probe: no bucket, no link)')
    cl = pl.body[3]
    if not (isinstance(cl, ast.For) and ast.unparse(cl.target) == 'other_inst' and
            ast.unparse(cl.iter) == 'storage[%s][link_key][inst_key]' % icls and not cl.orelse):
        raise ValueError('populate_connections: expected the loop over the bucket')
    connects = []
    for st in cl.body:
        if not (isinstance(st, ast.Expr) and isinstance(st.value, ast.Call) and isinstance(st.value.func, ast.Attribute)
                and st.value.func.attr == 'connect'):
            raise ValueError('populate_connections: unexpected statement in the bucket loop: %s' % ast.unparse(st))
        link = {'ass.source_link': 'sourceLink', 'ass.target_link': 'targetLink'}.get(ast.unparse(st.value.func.value))
        args = [ast.unparse(a) for a in st.value.args]
        order = {('other_inst', 'inst'): 'indexedThenProbing', ('inst', 'other_inst'): 'probingThenIndexed'}.get(tuple(args))
        kws = dict((k.arg, ast.unparse(k.value)) for k in st.value.keywords)
        if link is None or order is None or set(kws) - {'check'} or kws.get('check', 'True') not in ('True', 'False'):
            raise ValueError('populate_connections: unexpected connect call: %s' % ast.unparse(st))
        connects.append('(.%s, .%s, %s)' % (link, order, 'true' if kws.get('check', 'True') == 'True' else 'false'))
    # the last statement: the referential values are removed from the instances
    _expect(b[2], 'for inst in metamodel.instances:\n    metaclass = xtuml.get_metaclass(inst)\n'
                  '    for attr in metaclass.referential_attributes:\n        if attr in inst.__dict__:\n'
                  '            delattr(inst, attr)', 'populate_connections (stripping the referential values)')
    return {'indexed': cls[icls], 'probing': cls[pcls], 'cacheLink': lks[lk][0], 'cacheNames': lks[lk][1],
            'indexKeyLink': iks[ik], 'lookupKeyLink': pks[pk], 'connects': '[' + ', '.join(connects) + ']'}

# ----------------------------------------------------------------------------- the batch relate of MetaClass.new

def _new_null(n):
    src = ast.unparse(n)
    atoms = {'ref_value is None': 'isNone', 'ref_value == 0': 'eqZero', "ref_value == ''": 'eqEmpty'}
    if src in atoms:
        return atoms[src]
    if isinstance(n, ast.BoolOp):
        op = ' && ' if isinstance(n.op, ast.And) else ' || '
        return '(' + op.join(_new_null(v) for v in n.values) + ')'
    if isinstance(n, ast.Compare) and ast.unparse(n.left) == 'ref_type' and len(n.ops) == 1 and \
            isinstance(n.ops[0], ast.Eq) and isinstance(n.comparators[0], ast.Constant) and \
            isinstance(n.comparators[0].value, str):
        return 'decide (tyUpper = %s)' % _chars(n.comparators[0].value)
    raise ValueError('MetaClass.new: null test outside the translated fragment: %s' % src)


def new_relate(tree):
    fn = _func(tree, 'new', 'MetaClass')
    b = _body(fn)
    loops = [i for i, st in enumerate(b) if isinstance(st, ast.For) and ast.unparse(st.iter) == 'self.links.values()']
    if len(loops) != 1 or ast.unparse(b[loops[0]].target) != 'link':
        raise ValueError('MetaClass.new: expected exactly one `for link in self.links.values():`')
    i = loops[0]
    _expect(b[i - 1], 'if not referential_attributes:\n    return inst', 'MetaClass.new (before the batch relate)')
    # nothing after the batch relate but the warning about unassigned values and the return
    if len(b) != i + 3:
        raise ValueError('MetaClass.new: expected two statements after the batch relate, found %d' % (len(b) - i - 1))
    _expect(b[i + 1], "for name, value in referential_attributes.items():\n    if getattr(inst, name) != value:\n"
                      "        logger.warning('unable to assign %s to %s', name, inst)", 'MetaClass.new (after the batch relate)')
    _expect(b[i + 2], 'return inst', 'MetaClass.new (end)')
    loop = b[i]
    if loop.orelse or len(loop.body) != 5:
        raise ValueError('MetaClass.new: expected 5 statements in the batch relate, found %d' % len(loop.body))
    s = loop.body
    given = {'if set(link.key_map.values()) - set(referential_attributes.keys()):\n    continue': 'values',
             'if set(link.key_map.keys()) - set(referential_attributes.keys()):\n    continue': 'keys'}.get(ast.unparse(s[0]))
    if given is None:
        raise ValueError('MetaClass.new: expected `if set(link.key_map.values()) - set(referential_attributes.keys()): continue`')
    _expect(s[1], 'kwargs = dict()', 'MetaClass.new (batch relate)')
    kl = s[2]
    if not (isinstance(kl, ast.For) and ast.unparse(kl.iter) == 'link.key_map.items()' and isinstance(kl.target, ast.Tuple)
            and len(kl.target.elts) == 2 and all(isinstance(e, ast.Name) for e in kl.target.elts)
            and not kl.orelse and len(kl.body) == 4):
        raise ValueError('MetaClass.new: expected `for <a>, <b> in link.key_map.items():` with 4 statements')
    var = {kl.target.elts[0].id: 'fst', kl.target.elts[1].id: 'snd'}
    st = kl.body[0]
    if not (isinstance(st, ast.Assign) and ast.unparse(st.targets[0]) == 'ref_value' and isinstance(st.value, ast.Subscript)
            and ast.unparse(st.value.value) == 'referential_attributes' and isinstance(st.value.slice, ast.Name)
            and st.value.slice.id in var):
        raise ValueError('MetaClass.new: expected `ref_value = referential_attributes[<loop variable>]`')
    vfrom = st.value.slice.id
    _expect(kl.body[1], "ref_type = (self.attribute_type(%s) or '').upper()" % vfrom,
            'MetaClass.new (type names are compared upper-cased)')
    st = kl.body[2]
    if not (isinstance(st, ast.If) and not st.orelse):
        raise ValueError('MetaClass.new: expected the null test')
    null = _new_null(st.test)
    on_null = {'kwargs = None\nbreak': 'skipLink', 'continue': 'skipValue'}.get('\n'.join(ast.unparse(x) for x in st.body))
    if on_null is None:
        raise ValueError('MetaClass.new: unexpected reaction to a null referential value: %s' % ast.unparse(st.body[0]))
    st = kl.body[3]
    if not (isinstance(st, ast.Assign) and isinstance(st.targets[0], ast.Subscript) and ast.unparse(st.targets[0].value) == 'kwargs'
            and isinstance(st.targets[0].slice, ast.Name) and st.targets[0].slice.id in var and ast.unparse(st.value) == 'ref_value'):
        raise ValueError('MetaClass.new: expected `kwargs[<loop variable>] = ref_value`')
    qname = st.targets[0].slice.id
    _expect(s[3], 'if not kwargs:\n    continue', 'MetaClass.new (an empty or dropped query relates nothing)')
    rl = s[4]
    if not (isinstance(rl, ast.For) and ast.unparse(rl.target) == 'other_inst' and
            ast.unparse(rl.iter) == 'link.to_metaclass.query(kwargs)' and not rl.orelse and len(rl.body) == 1
            and isinstance(rl.body[0], ast.Expr) and isinstance(rl.body[0].value, ast.Call)
            and ast.unparse(rl.body[0].value.func) == 'relate' and not rl.body[0].value.keywords):
        raise ValueError('MetaClass.new: expected `for other_inst in link.to_metaclass.query(kwargs): relate(...)`')
    names = {'other_inst': 'other', 'inst': 'inst', 'link.rel_id': 'relId', 'link.phrase': 'phrase'}
    args = []
    for a in rl.body[0].value.args:
        if ast.unparse(a) not in names:
            raise ValueError('MetaClass.new: unexpected relate argument `%s`' % ast.unparse(a))
        args.append('.' + names[ast.unparse(a)])
    return {'given': given, 'null': null, 'onNull': on_null, 'qname': var[qname], 'vfrom': var[vfrom],
            'args': '[' + ', '.join(args) + ']'}

# ----------------------------------------------------------------------------- statements -> define_* / instances

def populate_shape(tree, meta_tree):
    """how the statement fields reach define_association, and how an INSERT's values are paired with the attributes"""
    fn = _func(tree, 'populate_associations', 'ModelLoader')
    b = _body(fn)
    if len(b) != 1 or not isinstance(b[0], ast.For) or ast.unparse(b[0].iter) != 'self.statements' or len(b[0].body) != 3:
        raise ValueError('populate_associations: expected one loop over self.statements with 3 statements')
    s = b[0].body
    _expect(s[0], 'if not isinstance(stmt, CreateAssociationStmt):\n    continue', 'populate_associations')
    st = s[1]
    if not (isinstance(st, ast.Assign) and ast.unparse(st.targets[0]) == 'ass' and isinstance(st.value, ast.Call)
            and ast.unparse(st.value.func) == 'metamodel.define_association' and not st.value.keywords):
        raise ValueError('populate_associations: expected `ass = metamodel.define_association(<positional arguments>)`')
    args = [ast.unparse(a) for a in st.value.args]
    _expect(s[2], 'ass.formalize()', 'populate_associations')
    params = [a.arg for a in _func(meta_tree, 'define_association', 'MetaModel').args.args][1:]
    # instances
    fn = _func(tree, 'populate_instances', 'ModelLoader')
    b = _body(fn)
    if len(b) != 1 or not isinstance(b[0], ast.For) or ast.unparse(b[0].iter) != 'self.statements' or len(b[0].body) != 3:
        raise ValueError('populate_instances: expected one loop over self.statements with 3 statements')
    s = b[0].body
    _expect(s[0], 'if not isinstance(stmt, CreateInstanceStmt):\n    continue', 'populate_instances')
    _expect(s[1], 'if stmt.names:\n    fn = self._populate_instance_with_named_arguments\nelse:\n'
                  '    fn = self._populate_instance_with_positional_arguments', 'populate_instances (named / positional)')
    _expect(s[2], 'fn(metamodel, stmt)', 'populate_instances')
    fn = _func(tree, '_populate_instance_with_positional_arguments', 'ModelLoader')
    loops = [n for n in ast.walk(fn) if isinstance(n, ast.For)]
    if len(loops) != 1 or ast.unparse(loops[0].iter) != 'zip(metaclass.attributes, stmt.values)' or \
            ast.unparse(loops[0].target) != '(attr, value)':
        raise ValueError('positional INSERT: expected `for attr, value in zip(metaclass.attributes, stmt.values):`')
    lb = loops[0].body
    _expect(lb[0], 'name, ty = attr', 'positional INSERT')
    _expect(lb[1], 'py_value = deserialize_value(ty, value)', 'positional INSERT')
    _expect(lb[-1], 'inst.__dict__[name] = py_value', 'positional INSERT')
    fn = _func(tree, '_populate_instance_with_named_arguments', 'ModelLoader')
    src = ast.unparse(fn)
    for want in ('inst_unames = [name.upper() for name in stmt.names]', 'for name, ty in metaclass.attributes:',
                 'idx = inst_unames.index(uname)', 'value = deserialize_value(ty, stmt.values[idx])',
                 'inst.__dict__[name] = value'):
        if src.count(want) != 1:
            raise ValueError('named INSERT: expected exactly one `%s`' % want)
    return args, params


def _lean_strs(xs):
    for x in xs:
        if not all(32 <= ord(c) < 127 and c not in '"\\' for c in x):
            raise ValueError('unexpected character in %r' % x)
    return '[' + ', '.join('"%s"' % x for x in xs) + ']'


def generate(repo_dir):
    meta = ast.parse(open(os.path.join(repo_dir, 'xtuml', 'meta.py'), encoding='utf-8').read())
    load = ast.parse(open(os.path.join(repo_dir, 'xtuml', 'load.py'), encoding='utf-8').read())
    null = null_rule(meta)
    lookup = key_spec(meta, 'compute_lookup_key', 'from_instance')
    index = key_spec(meta, 'compute_index_key', 'to_instance')
    br = batch_relate(load)
    nr = new_relate(meta)
    aargs, aparams = populate_shape(load, meta)
    text = '''/-
  GENERATED by translator/gen_loaddecisions.py from xtuml/meta.py (_is_null, Link.compute_lookup_key,
  Link.compute_index_key, MetaClass.new) and xtuml/load.py (ModelLoader.populate_connections, populate_associations,
  populate_instances) — do not edit.
-/
namespace Pyx.Gen.LoadDecisions

/-- `_is_null`: truthy = truthiness of the value, isNone = `value is None`, tyUpper = the declared type name of the
    attribute UPPER-CASED (the source upper-cases it before comparing), eqZero = `value == 0`,
    lenZero = `len(value) == 0` -/
def isNull (truthy isNone : Bool) (tyUpper : List Char) (eqZero lenZero : Bool) : Bool :=
  %s

/-- what a key computation iterates -/
inductive Iter where
  | items | keys | values
  deriving DecidableEq, Repr

/-- a loop variable: the first (only) one, or the second one of `for a, b in key_map.items()` -/
inductive Var where
  | fst | snd
  deriving DecidableEq, Repr

inductive KeyResult where
  | frozensetOfItems      -- frozenset of the (name, value) pairs collected in a dict
  deriving DecidableEq, Repr

/-- `for <vars> in self.key_map.<iter>(): if _is_null(inst, <nullOn>): return None; kwargs[<name>] = inst.<valueFrom>` -/
structure KeySpec where
  iter : Iter
  nullOn : Var
  name : Var
  valueFrom : Var
  result : KeyResult
  deriving DecidableEq, Repr

/-- `Link.compute_lookup_key(from_instance)` -/
def lookupKey : KeySpec := %s

/-- `Link.compute_index_key(to_instance)` -/
def indexKey : KeySpec := %s

/-- the two classes of an association, named by the link whose `to_metaclass` they are -/
inductive Side where
  | source | target
  deriving DecidableEq, Repr

inductive LinkName where
  | sourceLink | targetLink
  deriving DecidableEq, Repr

inductive ArgOrder where
  | indexedThenProbing | probingThenIndexed
  deriving DecidableEq, Repr

/-- `populate_connections`: the class whose instances are put into the index / whose instances probe it -/
def indexedSide : Side := .%s
def probingSide : Side := .%s
/-- the index is cached per (indexed class, frozenset of `<cacheLink>.key_map.<cacheNames>()`) -/
def cacheLink : LinkName := .%s
def cacheNames : Iter := .%s
def indexKeyLink : LinkName := .%s
def lookupKeyLink : LinkName := .%s
/-- the `connect` calls made for every (probing instance, indexed instance in its bucket): link, argument order, `check` -/
def connects : List (LinkName × ArgOrder × Bool) := %s

/-! the batch relate at the end of `MetaClass.new` -/

/-- a link is attempted only when every name of `link.key_map.<newGivenNames>()` was given as an argument -/
def newGivenNames : Iter := .%s

/-- the null test of a referential value: isNone = `ref_value is None`, tyUpper = the declared type name UPPER-CASED,
    eqZero = `ref_value == 0`, eqEmpty = `ref_value == ''` -/
def newIsNull (isNone : Bool) (tyUpper : List Char) (eqZero eqEmpty : Bool) : Bool :=
  %s

inductive OnNull where
  | skipLink      -- `kwargs = None; break`: the link is not related at all
  | skipValue     -- the null value is left out of the query
  deriving DecidableEq, Repr

def newOnNull : OnNull := .%s

/-- `for a, b in link.key_map.items(): kwargs[<newQueryName>] = referential_attributes[<newValueFrom>]` -/
def newQueryName : Var := .%s
def newValueFrom : Var := .%s

inductive RelArg where
  | other | inst | relId | phrase
  deriving DecidableEq, Repr

/-- `for other_inst in link.to_metaclass.query(kwargs): relate(<these>)` -/
def newRelateArgs : List RelArg := %s

/-! `ModelLoader.populate_associations`: the parameters of `MetaModel.define_association` and the expressions over the
    CREATE ROP statement handed to them, in call order.  (`populate_instances` dispatches on `if stmt.names:`; a
    positional INSERT pairs `zip(metaclass.attributes, stmt.values)`, a named one looks its names up upper-cased: these
    are checked by the generator as exact statement shapes.) -/

def defineAssociationParams : List String := %s

def defineAssociationArgs : List String := %s

end Pyx.Gen.LoadDecisions
''' % (null, lookup, index, br['indexed'], br['probing'], br['cacheLink'], br['cacheNames'], br['indexKeyLink'],
       br['lookupKeyLink'], br['connects'], nr['given'], nr['null'], nr['onNull'], nr['qname'], nr['vfrom'],
       nr['args'], _lean_strs(aparams), _lean_strs(aargs))
    return [('LoadDecisions.lean', text)]


if __name__ == '__main__':
    import sys
    for name, text in generate(sys.argv[1] if len(sys.argv) > 1 else '/repo'):
        sys.stdout.write(text)
