"""xtuml/meta.py -> lean/Gen/MetaDefaults.lean:
Read with `ast` only (the repository is never imported): `MetaClass.default_value`.
The method must have exactly this shape (anything else raises = broken tie):

    def default_value(self, type_name):
        [docstring]
        uname = type_name.upper()
        if   uname == '<T1>': return <constant>
        elif uname == '<T2>': return <constant>
        ...
        elif uname == '<Tk>':                       # at most one branch of this form
            if self.metamodel: return next(self.metamodel.id_generator)
            else:              return None
        else:
            raise MetaException(...)

Emitted: the branch table in source order (type name -> default), the constants being
bool / int / float (kept as its repr text, never as a float) / str literals.
"""
import ast
import os

OUTPUTS = ['MetaDefaults.lean']


def _lean_chars(s):
    return '[' + ', '.join("'%s'" % ch if (ch.isalnum() or ch in '_ .-') and ord(ch) < 127 else 'Char.ofNat %d' % ord(ch)
                           for ch in s) + ']'


def _const(node):
    if not isinstance(node, ast.Constant):
        raise ValueError('default is not a literal: %s' % ast.unparse(node))
    v = node.value
    if v is True or v is False:
        return '.boolean %s' % ('true' if v else 'false')
    if isinstance(v, int):
        return '.integer (%d)' % v
    if isinstance(v, float):
        return '.real %s' % _lean_chars(repr(v))
    if isinstance(v, str):
        return '.string %s' % _lean_chars(v)
    raise ValueError('unsupported default literal %r' % (v,))


def _is_next_id(stmts):
    """[ if self.metamodel: return next(self.metamodel.id_generator) else: return None ]"""
    if len(stmts) != 1 or not isinstance(stmts[0], ast.If):
        return False
    node = stmts[0]
    if ast.unparse(node.test) != 'self.metamodel':
        return False
    if len(node.body) != 1 or not isinstance(node.body[0], ast.Return) or node.body[0].value is None:
        return False
    if ast.unparse(node.body[0].value) != 'next(self.metamodel.id_generator)':
        return False
    if len(node.orelse) != 1 or not isinstance(node.orelse[0], ast.Return):
        return False
    ret = node.orelse[0].value
    return ret is None or (isinstance(ret, ast.Constant) and ret.value is None)


def generate(repo_dir):
    path = os.path.join(repo_dir, 'xtuml', 'meta.py')
    tree = ast.parse(open(path, encoding='utf-8').read())
    cls = [n for n in tree.body if isinstance(n, ast.ClassDef) and n.name == 'MetaClass']
    if len(cls) != 1:
        raise ValueError('class MetaClass not found')
    fns = [n for n in cls[0].body if isinstance(n, ast.FunctionDef) and n.name == 'default_value']
    if len(fns) != 1:
        raise ValueError('MetaClass.default_value not found')
    fn = fns[0]
    if [a.arg for a in fn.args.args] != ['self', 'type_name'] or fn.args.vararg or fn.args.kwarg or fn.args.kwonlyargs:
        raise ValueError('default_value has unexpected parameters')
    body = list(fn.body)
    if body and isinstance(body[0], ast.Expr) and isinstance(body[0].value, ast.Constant) and isinstance(body[0].value.value, str):
        body = body[1:]
    if len(body) != 2:
        raise ValueError('default_value: expected `uname = type_name.upper()` followed by one if/elif chain')
    if not isinstance(body[0], ast.Assign) or ast.unparse(body[0]) != 'uname = type_name.upper()':
        raise ValueError('default_value: first statement is not `uname = type_name.upper()`: %s' % ast.unparse(body[0]))
    rows = []
    node = body[1]
    raises = None
    while True:
        if not isinstance(node, ast.If):
            raise ValueError('default_value: expected an if/elif chain')
        t = node.test
        if not (isinstance(t, ast.Compare) and isinstance(t.left, ast.Name) and t.left.id == 'uname' and len(t.ops) == 1
                and isinstance(t.ops[0], ast.Eq) and isinstance(t.comparators[0], ast.Constant)
                and isinstance(t.comparators[0].value, str)):
            raise ValueError('default_value: test of unexpected shape: %s' % ast.unparse(t))
        name = t.comparators[0].value
        if name != name.upper() or not name.isascii():
            raise ValueError('default_value: %r can never equal an upper-cased name' % name)
        if any(name == r[0] for r in rows):
            raise ValueError('default_value: type %r tested twice' % name)
        if _is_next_id(node.body):
            if any(r[1] == '.nextId' for r in rows):
                raise ValueError('default_value: two generator branches')
            rows.append((name, '.nextId'))
        elif len(node.body) == 1 and isinstance(node.body[0], ast.Return) and node.body[0].value is not None:
            rows.append((name, _const(node.body[0].value)))
        else:
            raise ValueError('default_value: branch for %r of unexpected shape' % name)
        if len(node.orelse) == 1 and isinstance(node.orelse[0], ast.If):
            node = node.orelse[0]
            continue
        if len(node.orelse) == 1 and isinstance(node.orelse[0], ast.Raise):
            exc = node.orelse[0].exc
            if isinstance(exc, ast.Call) and isinstance(exc.func, ast.Name):
                raises = exc.func.id
            elif isinstance(exc, ast.Name):
                raises = exc.id
            else:
                raise ValueError('default_value: final raise of unexpected shape')
            break
        raise ValueError('default_value: the chain does not end in `else: raise …`')
    if raises != 'MetaException':
        raise ValueError('default_value: unknown types raise %s, not MetaException' % raises)
    lines = [
        '/-',
        '  GENERATED by translator/gen_metadefaults.py from xtuml/meta.py `MetaClass.default_value` — do not edit.',
        '  The if/elif chain on `uname = type_name.upper()`, in source order.  `nextId` stands for',
        '  `next(self.metamodel.id_generator)`; a type name not in the table raises MetaException.',
        '-/',
        'namespace Pyx.Gen.MetaDefaults',
        '',
        'inductive Dflt where',
        '  | boolean (b : Bool)',
        '  | integer (i : Int)',
        '  | real (repr : List Char)      -- the float literal as Python prints it; never a float here',
        '  | string (s : List Char)',
        '  | nextId',
        '  deriving DecidableEq, Repr',
        '',
        'def table : List (List Char × Dflt) :=',
        '  [ ' + ',\n    '.join('(%s, %s)' % (_lean_chars(n), d) for n, d in rows) + ' ]',
        '',
        '/-- the exception class raised for a type name that no branch matches -/',
        'def unknownRaises : List Char := %s' % _lean_chars(raises),
        '',
        'end Pyx.Gen.MetaDefaults',
        '',
    ]
    return [('MetaDefaults.lean', '\n'.join(lines))]


if __name__ == '__main__':
    import sys
    for name, text in generate(sys.argv[1] if len(sys.argv) > 1 else '/repo'):
        sys.stdout.write(text)
