"""bridgepoint/oal.py  ->  lean/Gen/OalPrec.lean:
Reads the SOURCE TEXT of bridgepoint/oal.py with `ast` (the module is not imported) and emits

  precRows      the `precedence` tuple as written: (assoc, names) per row, level = 1-based row index
  binOps        every alternative `expression : expression TOK expression`: TOK with the level/assoc PLY
                gives the TOKEN (shift side of a shift/reduce conflict); ('right', 0) when TOK is not listed
  binProds      the same alternatives with the effective precedence of the PRODUCTION (reduce side):
                `%prec NAME` if present, else the rightmost terminal, else ('right', 0)  (ply/yacc.py add_production)
  unOps         the alternatives of `unary_operator`
  unaryProd     effective precedence of `expression : unary_operator expression [%prec NAME]`
  unaryRow      the row of the name UNARY in `precedence`
  opLexemes     operator token -> lexeme: the literal of its `t_*` rule, or the keyword in lower case
  kwIdent1 .. kwIdent4    the alternatives of kw_as_identifier_1 .. _4 (which keywords may be used as names)
  exprProds / stmtProds   every p_* production (lhs, rhs, %prec, body with p[i] written $i), split into the
                expression sub-grammar and the statement grammar, sorted by (lhs, rhs) so that moving an
                alternative between p_* functions with the same body is not a change of the grammar
  table         Tbl.ofLists binOps unOps unaryProd.level    (what the Lean parser / renderer use)

Raises when the source no longer has the expected shape (reported by the runner as a broken tie).
"""
import ast
import os
import re

OUTPUTS = ['OalPrec.lean']

EXPR_LHS = {
    'expression', 'constant', 'variable_access', 'field_access', 'index_access', 'structure', 'array', 'param',
    'param_access', 'self_access', 'selected_access', 'invocation', 'implicit_invocation', 'function_invocation',
    'instance_invocation', 'parameter_list', 'parameter', 'unary_operator',
}
# the four keyword-as-identifier classes: their alternatives are also emitted as lists of token kinds
KW_CLASSES = ('kw_as_identifier_1', 'kw_as_identifier_2', 'kw_as_identifier_3', 'kw_as_identifier_4')
KEYWORD_OPERATORS = ('AND', 'OR', 'NOT', 'EMPTY', 'NOT_EMPTY', 'CARDINALITY')
ASSOCS = ('left', 'right', 'nonassoc')


class Shape(Exception):
    pass


def _parser_class(tree):
    for node in tree.body:
        if isinstance(node, ast.ClassDef) and node.name == 'OALParser':
            return node
    raise Shape('class OALParser not found')


def _class_assign(cls, name):
    for node in cls.body:
        if isinstance(node, ast.Assign) and len(node.targets) == 1 and isinstance(node.targets[0], ast.Name) \
                and node.targets[0].id == name:
            return node.value
    raise Shape('OALParser.%s not found' % name)


def _literal(expr_node, env):
    """literal_eval with the class-level names `keywords` / `tokens` resolved (tokens = keywords + (...))"""
    if isinstance(expr_node, ast.BinOp) and isinstance(expr_node.op, ast.Add):
        return _literal(expr_node.left, env) + _literal(expr_node.right, env)
    if isinstance(expr_node, ast.Name) and expr_node.id in env:
        return env[expr_node.id]
    return ast.literal_eval(expr_node)


def _regex_literal(rx):
    """the fixed string matched by a t_* rule whose regex is a plain literal, else None"""
    out = []
    i = 0
    while i < len(rx):
        c = rx[i]
        if c == '\\':
            if i + 1 >= len(rx) or rx[i + 1].isalnum():
                return None
            out.append(rx[i + 1])
            i += 2
        elif c in '.^$*+?{}[]|()':
            return None
        else:
            out.append(c)
            i += 1
    return ''.join(out)


def _productions(fn):
    """[(lhs, [rhs symbols], prec name or None)] of one p_* function's docstring (PLY's own syntax)"""
    doc = ast.get_docstring(fn, clean=False)
    if doc is None:
        raise Shape('%s has no docstring' % fn.name)
    prods = []
    lhs = None
    for line in doc.splitlines():
        syms = line.split()
        if not syms:
            continue
        if syms[0] == '|':
            if lhs is None:
                raise Shape('%s: misplaced |' % fn.name)
            rhs = syms[1:]
        else:
            if len(syms) < 2 or syms[1] not in (':', '::='):
                raise Shape('%s: cannot read grammar line %r' % (fn.name, line))
            lhs = syms[0]
            rhs = syms[2:]
        # alternatives on one line
        alt = []
        alts = [alt]
        for s in rhs:
            if s == '|':
                alt = []
                alts.append(alt)
            else:
                alt.append(s)
        for a in alts:
            prec = None
            if '%prec' in a:
                k = a.index('%prec')
                if k != len(a) - 2:
                    raise Shape('%s: %%prec not at the end of %r' % (fn.name, line))
                prec = a[-1]
                a = a[:k]
            prods.append((lhs, list(a), prec))
    return prods


_P_INDEX = re.compile(r'\bp\[(\d+)\]')


def _body(fn):
    stmts = fn.body
    if stmts and isinstance(stmts[0], ast.Expr) and isinstance(getattr(stmts[0], 'value', None), ast.Constant) \
            and isinstance(stmts[0].value.value, str):
        stmts = stmts[1:]
    text = '; '.join(ast.unparse(s).replace('\n', ' ') for s in stmts)
    text = re.sub(r'\s+', ' ', text)
    return _P_INDEX.sub(lambda m: '$' + m.group(1), text)


def _lean_str(s):
    out = []
    for ch in s:
        if ch == '"' or ch == '\\':
            out.append('\\' + ch)
        elif 32 <= ord(ch) < 127:
            out.append(ch)
        else:
            out.append('\\u{%x}' % ord(ch))
    return '"' + ''.join(out) + '"'


def _lean_list(items, indent='  '):
    if not items:
        return '[]'
    return '[\n' + ',\n'.join(indent + '  ' + it for it in items) + ' ]'


def read(repo_dir):
    path = os.path.join(repo_dir, 'bridgepoint', 'oal.py')
    with open(path, encoding='utf-8') as f:
        tree = ast.parse(f.read(), filename=path)
    cls = _parser_class(tree)
    env = {}
    env['keywords'] = tuple(_literal(_class_assign(cls, 'keywords'), env))
    env['tokens'] = tuple(_literal(_class_assign(cls, 'tokens'), env))
    tokens = set(env['tokens'])
    precedence = _literal(_class_assign(cls, 'precedence'), env)
    rows = []
    level_of = {}
    for i, row in enumerate(precedence):
        if not isinstance(row, tuple) or len(row) < 2 or row[0] not in ASSOCS:
            raise Shape('precedence row %d is not (assoc, name, ...)' % i)
        rows.append((row[0], list(row[1:])))
        for nm in row[1:]:
            if nm in level_of:
                raise Shape('precedence names %s twice' % nm)     # PLY rejects this too
            level_of[nm] = (i + 1, row[0])

    lexeme = {}
    prods = []
    for node in cls.body:
        if not isinstance(node, ast.FunctionDef):
            continue
        if node.name.startswith('t_') and node.name not in ('t_error', 't_ignore'):
            doc = ast.get_docstring(node, clean=False)
            if doc is not None:
                lit = _regex_literal(doc)
                if lit is not None:
                    lexeme[node.name[2:]] = lit
        elif node.name.startswith('p_') and node.name != 'p_error':
            body = _body(node)
            for lhs, rhs, prec in _productions(node):
                prods.append({'fn': node.name, 'lhs': lhs, 'rhs': rhs, 'prec': prec, 'body': body})
    if not prods:
        raise Shape('no p_* productions found')

    def prod_prec(p):
        if p['prec'] is not None:
            if p['prec'] not in level_of:
                raise Shape('%%prec %s is not in the precedence table' % p['prec'])   # PLY: "Nothing known about the precedence"
            return level_of[p['prec']]
        terms = [s for s in p['rhs'] if s in tokens]
        if terms:
            return level_of.get(terms[-1], (0, 'right'))
        return (0, 'right')

    bin_ops, bin_prods, un_ops = [], [], []
    unary = None
    for p in prods:
        if p['lhs'] == 'expression':
            rhs = p['rhs']
            if len(rhs) == 3 and rhs[0] == 'expression' and rhs[2] == 'expression' and rhs[1] in tokens:
                bin_ops.append((rhs[1],) + level_of.get(rhs[1], (0, 'right')))
                bin_prods.append((rhs[1],) + prod_prec(p))
            elif rhs == ['unary_operator', 'expression']:
                if unary is not None:
                    raise Shape('two unary productions')
                unary = p
            elif rhs in (['constant'], ['variable_access'], ['self_access'], ['selected_access'], ['invocation'],
                         ['LPAREN', 'expression', 'RPAREN']):
                pass
            else:
                raise Shape('unexpected expression production: %s' % ' '.join(rhs))
        elif p['lhs'] == 'unary_operator':
            if len(p['rhs']) != 1 or p['rhs'][0] not in tokens:
                raise Shape('unexpected unary_operator alternative: %s' % ' '.join(p['rhs']))
            un_ops.append(p['rhs'][0])
    if unary is None:
        raise Shape('production expression : unary_operator expression not found')
    if len(set(o[0] for o in bin_ops)) != len(bin_ops):
        raise Shape('a binary operator token occurs in two productions')
    op_lex = []
    for tokname in [o[0] for o in bin_ops] + [u for u in un_ops if u not in [o[0] for o in bin_ops]]:
        if tokname in lexeme:
            op_lex.append((tokname, lexeme[tokname]))
        elif tokname in env['keywords'] and tokname in KEYWORD_OPERATORS:
            op_lex.append((tokname, tokname.lower()))
        else:
            raise Shape('operator token %s has neither a literal t_ rule nor is a keyword operator' % tokname)
    kw_classes = []
    for cname in KW_CLASSES:
        alts = [p['rhs'] for p in prods if p['lhs'] == cname]
        if not alts:
            raise Shape('production %s not found' % cname)
        for a in alts:
            if len(a) != 1 or a[0] not in env['keywords']:
                raise Shape('%s: alternative %r is not a single keyword token' % (cname, a))
        kw_classes.append([a[0] for a in alts])
    return {
        'rows': rows, 'bin_ops': bin_ops, 'bin_prods': bin_prods, 'un_ops': un_ops,
        'unary_prod': prod_prec(unary), 'unary_prec_name': unary['prec'],
        'unary_row': level_of.get('UNARY'), 'op_lex': op_lex,
        'expr_prods': sorted((p for p in prods if p['lhs'] in EXPR_LHS), key=lambda p: (p['lhs'], p['rhs'])),
        'stmt_prods': sorted((p for p in prods if p['lhs'] not in EXPR_LHS), key=lambda p: (p['lhs'], p['rhs'])),
        'kw_classes': kw_classes,
        'tokens': env['tokens'], 'keywords': env['keywords'],
    }


def _assoc(a):
    return '.' + a


def _triple(t):
    return '(.%s, %d, %s)' % (t[0], t[1], _assoc(t[2]))


def _prod(p):
    return '{ fn := %s, lhs := %s, rhs := [%s], prec := %s,\n      body := %s }' % (
        _lean_str(p['fn']), _lean_str(p['lhs']), ', '.join(_lean_str(s) for s in p['rhs']),
        'none' if p['prec'] is None else 'some ' + _lean_str(p['prec']), _lean_str(p['body']))


def generate(repo_dir):
    d = read(repo_dir)
    L = []
    L.append('import PyxModel.Oal.Expr')
    L.append('/-! GENERATED by translator/gen_oalprec.py from bridgepoint/oal.py (precedence tuple, p_* docstrings and')
    L.append('    bodies, operator t_* rules).  Do not edit: the runner regenerates and compares this file on every check. -/')
    L.append('namespace Pyx.Gen.OalPrec')
    L.append('open Pyx.Oal')
    L.append('')
    L.append('/-- `OALParser.precedence` as written; the level of a row is its 1-based index -/')
    L.append('def precRows : List (Assoc × List String) := ' + _lean_list(
        ['(%s, [%s])' % (_assoc(a), ', '.join(_lean_str(n) for n in names)) for a, names in d['rows']]))
    L.append('')
    L.append('/-- `expression : expression TOK expression` alternatives: TOK, level and associativity of the TOKEN -/')
    L.append('def binOps : List (Kind × Nat × Assoc) := ' + _lean_list([_triple(t) for t in d['bin_ops']]))
    L.append('')
    L.append('/-- the same alternatives with the effective precedence of the PRODUCTION (%prec or rightmost terminal) -/')
    L.append('def binProds : List (Kind × Nat × Assoc) := ' + _lean_list([_triple(t) for t in d['bin_prods']]))
    L.append('')
    L.append('/-- alternatives of `unary_operator` -/')
    L.append('def unOps : List Kind := [%s]' % ', '.join('.' + u for u in d['un_ops']))
    L.append('')
    L.append('/-- effective precedence of `expression : unary_operator expression` -/')
    L.append('def unaryProd : Nat × Assoc := (%d, %s)' % (d['unary_prod'][0], _assoc(d['unary_prod'][1])))
    L.append('def unaryPrecName : Option String := %s' % (
        'none' if d['unary_prec_name'] is None else 'some ' + _lean_str(d['unary_prec_name'])))
    L.append('/-- the row of the name UNARY in `precedence` -/')
    L.append('def unaryRow : Option (Nat × Assoc) := %s' % (
        'none' if d['unary_row'] is None else 'some (%d, %s)' % (d['unary_row'][0], _assoc(d['unary_row'][1]))))
    L.append('')
    L.append('/-- operator token -> lexeme (literal of the t_* rule; keyword operators in lower case) -/')
    L.append('def opLexemes : List (Kind × String) := ' + _lean_list(
        ['(.%s, %s)' % (k, _lean_str(v)) for k, v in d['op_lex']]))
    L.append('')
    for i, cls in enumerate(d['kw_classes']):
        L.append('/-- alternatives of `kw_as_identifier_%d` -/' % (i + 1))
        L.append('def kwIdent%d : List Kind := [%s]' % (i + 1, ', '.join('.' + k for k in cls)))
    L.append('')
    L.append('/-- productions of the expression sub-grammar, sorted by (lhs, rhs) -/')
    L.append('def exprProds : List Prod := ' + _lean_list([_prod(p) for p in d['expr_prods']]))
    L.append('')
    L.append('/-- productions of the statement grammar (incl. the keyword-as-identifier lists), sorted by (lhs, rhs) -/')
    L.append('def stmtProds : List Prod := ' + _lean_list([_prod(p) for p in d['stmt_prods']]))
    L.append('')
    L.append('/-- the table the Lean parser and renderer are run with -/')
    L.append('def table : Tbl := Tbl.ofLists binOps unOps unaryProd.1')
    L.append('')
    L.append('end Pyx.Gen.OalPrec')
    return [('OalPrec.lean', '\n'.join(L) + '\n')]


if __name__ == '__main__':
    import sys
    for name, text in generate(sys.argv[1] if len(sys.argv) > 1 else '/repo'):
        sys.stdout.write(text)
