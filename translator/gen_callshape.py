"""bridgepoint/interpret.py + bridgepoint/ooaofooa.py -> lean/Gen/CallShape.lean:
Reads, with `ast` only, the STATEMENT STRUCTURE of everything between an OAL invocation and the body it runs, and emits it,
close to one to one, as a small first-order IR:

  interpret.py   ActionWalker.accept_ParameterListNode (where the actual parameters are collected: a LOCAL dict; the order in
                 which they are evaluated; the key each is stored under), accept_FunctionInvocationNode / BridgeInvocationNode /
                 ImplicitInvocationNode / ClassInvocationNode / InstanceInvocationNode (when the parameters are evaluated
                 relative to the look-up, which node field names the symbol, which KIND(S) `Domain.find_symbol` is asked for,
                 what is fetched with getattr from what, what is called with which positional arguments and `**kwargs`),
                 accept_InvocationStatementNode, accept_EnumOrNamedConstantNode (enumeration ONLY, then getattr),
                 accept_FieldAccessNode (ActionWalker and DerivedAttributeWalker: the return_value register),
                 accept_ParamAccessNode / accept_SelfAccessNode of the three walkers, their `__init__` (what is stored in the
                 walker, which symbol table is created and in which order), the methods each walker class defines,
                 run_function / run_operation / run_derived_attribute (which walker with which arguments, parse, accept,
                 `return w.return_value`), InstanceSymbolTable.find_symbol (the name `self` in any letter case)
  ooaofooa.py    Domain.add_symbol / find_symbol (the two dictionaries, the order of the probes per kind and after the kinds),
                 mk_function / mk_bridge / mk_operation / mk_derived_attribute (the lambda / partial: its parameters, what it
                 calls with which arguments, classmethod / property wrapping: how `self` is bound), mk_external_entity,
                 mk_enum (first enumerator = the one that succeeds nothing, then `precedes` across R56; numbering
                 `range(len(enums))`), mk_constant (type name -> conversion, in order), the add_symbol calls of mk_component
                 (which maker's result is registered under which kind and key)

Every statement or expression outside the translated fragment raises (= broken tie).  Props/C15.lean proves that the clauses of the
reference semantics (PyxModel/Interp/Spec.lean, Model.lean) equal a generic interpretation (Proofs/CallShape.lean) of this IR.
"""
import ast
import os

OUTPUTS = ['CallShape.lean']


class Shape(ValueError):
    pass


def _s(s):
    out = []
    for ch in s:
        o = ord(ch)
        if ch == '"':
            out.append('\\"')
        elif ch == '\\':
            out.append('\\\\')
        elif ch == '\n':
            out.append('\\n')
        elif 32 <= o < 127:
            out.append(ch)
        else:
            out.append('\\u{%x}' % o)
    return '"' + ''.join(out) + '"'


def _slist(items):
    return '[' + ', '.join(_s(i) for i in items) + ']'


def _class(tree, cls):
    for n in tree.body:
        if isinstance(n, ast.ClassDef) and n.name == cls:
            return n
    raise Shape('class %s not found' % cls)


def _method(tree, cls, name):
    for f in _class(tree, cls).body:
        if isinstance(f, ast.FunctionDef) and f.name == name:
            return f
    raise Shape('%s.%s not found' % (cls, name))


def _function(tree, name):
    for n in tree.body:
        if isinstance(n, ast.FunctionDef) and n.name == name:
            return n
    raise Shape('function %s not found' % name)


def _strip_doc(body):
    body = list(body)
    if body and isinstance(body[0], ast.Expr) and isinstance(getattr(body[0], 'value', None), ast.Constant) \
            and isinstance(body[0].value.value, str):
        body = body[1:]
    return body


def _plain_params(f, where):
    a = f.args
    if a.vararg or a.kwarg or a.kwonlyargs or a.defaults or a.posonlyargs or f.decorator_list:
        raise Shape('%s: unexpected signature' % where)
    return [x.arg for x in a.args]


# --------------------------------------------------------------------------- statements of interpret.py

class Body(object):
    """translates a statement list; `self.locals` = the names bound so far (parameters, assignment targets, loop variables)"""

    def __init__(self, where, params):
        self.where = where
        self.locals = set(params)

    def fail(self, node, what='outside the translated fragment'):
        raise Shape('%s: %s: %s' % (self.where, what, ast.unparse(node) if isinstance(node, ast.AST) else node))

    def local(self, n):
        if isinstance(n, ast.Name) and n.id in self.locals and n.id != 'self':
            return n.id
        self.fail(n, 'expected a local variable')

    def is_local(self, n):
        return isinstance(n, ast.Name) and n.id in self.locals and n.id != 'self'

    def node_field(self, n):
        if isinstance(n, ast.Attribute) and isinstance(n.value, ast.Name) and n.value.id == 'node' and 'node' in self.locals:
            return n.attr
        return None

    def self_attr(self, n):
        if isinstance(n, ast.Attribute) and isinstance(n.value, ast.Name) and n.value.id == 'self' and 'self' in self.locals:
            return n.attr
        return None

    def str_(self, n):
        f = self.node_field(n)
        if f is not None:
            return '(.field %s)' % _s(f)
        if isinstance(n, ast.Constant) and isinstance(n.value, str):
            return '(.lit %s)' % _s(n.value)
        if isinstance(n, ast.Attribute) and self.is_local(n.value):
            return '(.localField %s %s)' % (_s(n.value.id), _s(n.attr))
        self.fail(n, 'expected node.<field>, <local>.<field> or a string literal')

    def arg(self, n):
        if isinstance(n, ast.Constant) and n.value is None:
            return '.none'
        if self.is_local(n):
            return '(.name %s)' % _s(n.id)
        if isinstance(n, ast.Attribute) and self.is_local(n.value):
            return '(.attr %s %s)' % (_s(n.value.id), _s(n.attr))
        self.fail(n, 'expected a local, <local>.<attribute> or None as an argument')

    def accessor(self, n, fn, params):
        """`lambda <params>: <fn>(<obj>, <name>[, value])` or `functools.partial(<fn>, <obj>, <name>)` -> (obj, name)"""
        if isinstance(n, ast.Lambda):
            a = n.args
            if [x.arg for x in a.args] != params or a.vararg or a.kwarg or a.kwonlyargs or a.defaults:
                self.fail(n, 'accessor lambda')
            c = n.body
            if not (isinstance(c, ast.Call) and isinstance(c.func, ast.Name) and c.func.id == fn and not c.keywords
                    and len(c.args) == 2 + len(params)
                    and [ast.unparse(x) for x in c.args[2:]] == params):
                self.fail(n, 'accessor lambda')
            obj, name = c.args[0], c.args[1]
        elif isinstance(n, ast.Call) and ast.unparse(n.func) in ('functools.partial', 'partial') and not n.keywords \
                and len(n.args) == 3 and isinstance(n.args[0], ast.Name) and n.args[0].id == fn:
            obj, name = n.args[1], n.args[2]
        else:
            self.fail(n, 'accessor')
        if isinstance(obj, ast.Name) and obj.id == 'self':
            o = 'self'
        else:
            o = self.local(obj)
        return o, self.str_(name)

    def expr(self, n):
        if isinstance(n, ast.Constant) and n.value is None:
            return '.none'
        if self.is_local(n):
            return '(.local %s)' % _s(n.id)
        sa = self.self_attr(n)
        if sa is not None:
            return '(.selfAttr %s)' % _s(sa)
        if isinstance(n, ast.Attribute) and self.is_local(n.value):
            return '(.localAttr %s %s)' % (_s(n.value.id), _s(n.attr))
        if isinstance(n, ast.Subscript) and self.self_attr(n.value) is not None:
            return '(.selfAttrAt %s %s)' % (_s(self.self_attr(n.value)), self.str_(n.slice))
        if not isinstance(n, ast.Call):
            self.fail(n, 'expression')
        fn = ast.unparse(n.func)
        a = n.args
        kws = n.keywords
        # self.accept(...)[.fget()]
        if isinstance(n.func, ast.Attribute) and n.func.attr == 'fget' and not a and not kws:
            v = n.func.value
            if isinstance(v, ast.Call) and ast.unparse(v.func) == 'self.accept' and len(v.args) == 1 and not v.keywords:
                x = v.args[0]
                if self.node_field(x) is not None:
                    return '(.acceptFget %s)' % _s(self.node_field(x))
                if isinstance(x, ast.Attribute) and self.is_local(x.value):
                    return '(.acceptOfFget %s %s)' % (_s(x.value.id), _s(x.attr))
            self.fail(n)
        if fn == 'self.accept' and len(a) == 1 and not kws:
            if self.node_field(a[0]) is not None:
                return '(.accept %s)' % _s(self.node_field(a[0]))
            return '(.acceptLocal %s)' % _s(self.local(a[0]))
        if fn == 'dict' and not a and not kws:
            return '.newDict'
        if fn == 'self.domain.find_symbol' and len(a) == 2 and not kws:
            k = a[1]
            if isinstance(k, ast.Constant) and isinstance(k.value, str):
                return '(.domainFind %s %s false)' % (self.str_(a[0]), _slist([k.value]))
            if isinstance(k, ast.List) and all(isinstance(e, ast.Constant) and isinstance(e.value, str) for e in k.elts):
                return '(.domainFind %s %s true)' % (self.str_(a[0]), _slist([e.value for e in k.elts]))
            self.fail(n, 'kind argument of find_symbol')
        if fn == 'getattr' and len(a) == 2 and not kws:
            o = a[0]
            if isinstance(o, ast.Attribute) and o.attr == '__class__' and self.is_local(o.value):
                return '(.getattrClass %s %s)' % (_s(o.value.id), self.str_(a[1]))
            return '(.getattr %s %s)' % (_s(self.local(o)), self.str_(a[1]))
        if fn == 'property':
            if len(a) == 1 and not kws and isinstance(a[0], ast.Lambda) and not a[0].args.args and not a[0].args.kwarg \
                    and not a[0].args.vararg:
                b = a[0].body
                if self.self_attr(b) is not None:
                    return '(.propertySelf %s)' % _s(self.self_attr(b))
                return '(.property %s)' % _s(self.local(b))
            if not a and [k.arg for k in kws] == ['fget', 'fset']:
                g = self.accessor(kws[0].value, 'getattr', [])
                s = self.accessor(kws[1].value, 'setattr', ['value'])
                if g != s:
                    self.fail(n, 'getter and setter of the property name different attributes')
                return '(.propertyAttr %s %s)' % (_s(g[0]), g[1])
            self.fail(n, 'property')
        if fn == 'oal.parse' and len(a) == 2 and not kws:
            return '(.parse %s %s)' % (_s(self.local(a[0])), _s(self.local(a[1])))
        if isinstance(n.func, ast.Attribute) and n.func.attr == 'accept' and self.is_local(n.func.value) and len(a) == 1 \
                and not kws:
            return '(.acceptOn %s %s)' % (_s(n.func.value.id), _s(self.local(a[0])))
        if isinstance(n.func, ast.Attribute) and isinstance(n.func.value, (ast.Name, ast.Attribute)) \
                and ast.unparse(n.func.value).split('.')[-1][:1].isupper() \
                and ast.unparse(n.func.value).split('.')[0] not in self.locals and 'self' in self.locals and a \
                and isinstance(a[0], ast.Name) and a[0].id == 'self' and not kws:
            # <Base>.<method>(self, <locals…>)
            return '(.baseCall %s %s %s)' % (_s(ast.unparse(n.func.value)), _s(n.func.attr),
                                             _slist([self.local(x) for x in a[1:]]))
        if isinstance(n.func, ast.Name) and n.func.id not in self.locals and n.func.id[:1].isupper() and not kws:
            return '(.construct %s [%s])' % (_s(n.func.id), ', '.join(self.arg(x) for x in a))
        # <local>(<locals…>, **<local>)
        if isinstance(n.func, ast.Name) and n.func.id in self.locals and len(kws) == 1 and kws[0].arg is None:
            return '(.callKw %s %s %s)' % (_s(n.func.id), _slist([self.local(x) for x in a]), _s(self.local(kws[0].value)))
        self.fail(n, 'call outside the translated fragment')

    def cond(self, t):
        if isinstance(t, ast.BoolOp) and isinstance(t.op, ast.And) and len(t.values) == 2:
            return '(.both %s %s)' % (self.cond(t.values[0]), self.cond(t.values[1]))
        if isinstance(t, ast.Compare) and len(t.ops) == 1 and isinstance(t.ops[0], ast.Eq):
            l, r = t.left, t.comparators[0]
            if isinstance(l, ast.Call) and isinstance(l.func, ast.Attribute) and l.func.attr == 'lower' and not l.args \
                    and not l.keywords and self.is_local(l.func.value) and isinstance(r, ast.Constant) \
                    and isinstance(r.value, str):
                return '(.lowerEq %s %s)' % (_s(l.func.value.id), _s(r.value))
            if self.self_attr(r) is not None:
                if self.node_field(l) is not None:
                    return '(.fieldEqSelf %s %s)' % (_s(self.node_field(l)), _s(self.self_attr(r)))
                return '(.localEqSelf %s %s)' % (_s(self.local(l)), _s(self.self_attr(r)))
        self.fail(t, 'condition')

    def stmts(self, body):
        return [self.stmt(s) for s in body]

    def stmt(self, st):
        if isinstance(st, ast.Return):
            if st.value is None:
                self.fail(st, 'bare return')
            return '.ret %s' % self.expr(st.value)
        if isinstance(st, ast.Expr):
            return '.expr %s' % self.expr(st.value)
        if isinstance(st, ast.Assign):
            if len(st.targets) != 1:
                self.fail(st)
            t = st.targets[0]
            if self.self_attr(t) is not None:
                return '.setSelf %s %s' % (_s(self.self_attr(t)), self.expr(st.value))
            if isinstance(t, ast.Subscript):
                if self.is_local(t.value):
                    return '.setItem %s %s %s' % (_s(t.value.id), self.str_(t.slice), _s(self.local(st.value)))
                if self.self_attr(t.value) is not None:
                    return '.setSelfItem %s %s %s' % (_s(self.self_attr(t.value)), self.str_(t.slice), _s(self.local(st.value)))
                self.fail(st, 'assignment target')
            if not isinstance(t, ast.Name):
                self.fail(st, 'assignment target')
            c = self.expr(st.value)
            self.locals.add(t.id)
            return '.assign %s %s' % (_s(t.id), c)
        if isinstance(st, ast.For):
            if st.orelse or not isinstance(st.target, ast.Name) or self.node_field(st.iter) != 'children':
                self.fail(st, 'for loop')
            self.locals.add(st.target.id)
            return ('.forChildren %s' % _s(st.target.id), [self.stmts(st.body)])
        if isinstance(st, ast.If):
            return ('.ifCond %s' % self.cond(st.test), [self.stmts(st.body), self.stmts(st.orelse)])
        self.fail(st, 'statement outside the translated fragment')


def _render_block(items, ind):
    if not items:
        return '[]'
    pad = ' ' * (ind + 2)
    return '[\n' + ',\n'.join(pad + _render(i, ind + 2) for i in items) + ' ]'


def _render(item, ind):
    if isinstance(item, str):
        return item
    return '%s %s' % (item[0], ' '.join(_render_block(b, ind) for b in item[1]))


def _def(f, where, drop_self=True):
    params = _plain_params(f, where)
    b = Body(where, params)
    items = b.stmts(_strip_doc(f.body))
    return params, _render_block(items, 2)


HANDLERS = [('ActionWalker', 'accept_ParameterListNode'), ('ActionWalker', 'accept_FunctionInvocationNode'),
            ('ActionWalker', 'accept_BridgeInvocationNode'), ('ActionWalker', 'accept_ImplicitInvocationNode'),
            ('ActionWalker', 'accept_ClassInvocationNode'), ('ActionWalker', 'accept_InstanceInvocationNode'),
            ('ActionWalker', 'accept_InvocationStatementNode'), ('ActionWalker', 'accept_EnumOrNamedConstantNode'),
            ('ActionWalker', 'accept_FieldAccessNode'), ('DerivedAttributeWalker', 'accept_FieldAccessNode'),
            ('FunctionWalker', 'accept_ParamAccessNode'), ('OperationWalker', 'accept_ParamAccessNode'),
            ('OperationWalker', 'accept_SelfAccessNode'), ('DerivedAttributeWalker', 'accept_SelfAccessNode')]

WALKERS = ['ActionWalker', 'FunctionWalker', 'OperationWalker', 'DerivedAttributeWalker']
INITS = WALKERS + ['InstanceSymbolTable']
RUNS = ['run_function', 'run_operation', 'run_derived_attribute']


def _interpret(tree, out):
    for cls, name in HANDLERS:
        f = _method(tree, cls, name)
        params, body = _def(f, '%s.%s' % (cls, name))
        if params != ['self', 'node']:
            raise Shape('%s.%s: unexpected signature' % (cls, name))
        lean = name if cls == 'ActionWalker' else '%s_%s' % (cls, name)
        out.append('/-- `%s.%s(self, node)` -/' % (cls, name))
        out.append('def %s : List CStmt :=\n  %s\n' % (lean, body))
    # a visitor-style accept_ParameterNode (none in the source today) would take part in parameter passing
    for c in WALKERS:
        for f in _class(tree, c).body:
            if isinstance(f, ast.FunctionDef) and f.name == 'accept_ParameterNode':
                raise Shape('%s.accept_ParameterNode exists: parameters are no longer collected by accept_ParameterListNode alone'
                            % c)
    inits = []
    for cls in INITS:
        f = _method(tree, cls, '__init__')
        params, body = _def(f, '%s.__init__' % cls)
        if params[:1] != ['self']:
            raise Shape('%s.__init__: unexpected signature' % cls)
        out.append('/-- `%s.__init__(%s)` -/' % (cls, ', '.join(params)))
        out.append('def %s_init : Def :=\n  { params := %s,\n    body := %s }\n' % (cls, _slist(params[1:]), body.replace('\n', '\n  ')))
        inits.append(cls)
    out.append('/-- the constructors, by class -/')
    out.append('def inits : List (String × Def) :=\n  [' + ', '.join('(%s, %s_init)' % (_s(c), c) for c in inits) + ']\n')
    f = _method(tree, 'InstanceSymbolTable', 'find_symbol')
    a = f.args
    if [x.arg for x in a.args] != ['self', 'name', 'default'] or [ast.unparse(d) for d in a.defaults] != ['None'] \
            or a.vararg or a.kwarg or a.kwonlyargs or f.decorator_list:
        raise Shape('InstanceSymbolTable.find_symbol: unexpected signature')
    b = Body('InstanceSymbolTable.find_symbol', ['self', 'name', 'default'])
    out.append('/-- `InstanceSymbolTable.find_symbol(self, name, default=None)` -/')
    out.append('def InstanceSymbolTable_find_symbol : List CStmt :=\n  %s\n' % _render_block(b.stmts(_strip_doc(f.body)), 2))
    for name in RUNS:
        f = _function(tree, name)
        params, body = _def(f, name)
        out.append('/-- `%s(%s)` -/' % (name, ', '.join(params)))
        out.append('def %s : Def :=\n  { params := %s,\n    body := %s }\n' % (name, _slist(params), body.replace('\n', '\n  ')))
    out.append('/-- the run functions, by name -/')
    out.append('def runs : List (String × Def) :=\n  [' + ', '.join('(%s, %s)' % (_s(n), n) for n in RUNS) + ']\n')
    # the walker classes: bases, class-level attributes (`return_value = None`), the methods each defines
    rows = []
    for cls in WALKERS:
        c = _class(tree, cls)
        bases = [ast.unparse(b) for b in c.bases]
        attrs, methods = [], []
        for s in _strip_doc(c.body):
            if isinstance(s, ast.FunctionDef):
                if s.name.startswith('accept_') and cls == 'ActionWalker':
                    continue            # the handlers of the base class are Gen/InterpShape.lean's and the list above
                methods.append(s.name)
            elif isinstance(s, ast.Assign) and len(s.targets) == 1 and isinstance(s.targets[0], ast.Name) \
                    and isinstance(s.value, ast.Constant) and s.value.value is None:
                attrs.append(s.targets[0].id)
            else:
                raise Shape('class %s: unexpected class-level statement: %s' % (cls, ast.unparse(s)))
        rows.append('{ name := %s, bases := %s, noneAttrs := %s, methods := %s }'
                    % (_s(cls), _slist(bases), _slist(attrs), _slist(methods)))
    out.append('/-- the walker classes: bases, class attributes initialised to None, methods defined in the class itself\n'
               '    (for ActionWalker without its accept_* handlers) -/')
    out.append('def walkers : List WalkerClass :=\n  [ ' + ',\n    '.join(rows) + ' ]\n')


# --------------------------------------------------------------------------- ooaofooa.py

def _src(stmts):
    return [ast.unparse(s) for s in stmts]


def _lambda(n, where, binds, wrap):
    """lambda <params>, **<kw>: <callee>(<args…>) -> Lean LambdaShape"""
    if not isinstance(n, ast.Lambda):
        raise Shape('%s: expected a lambda: %s' % (where, ast.unparse(n)))
    a = n.args
    if a.vararg or a.kwonlyargs or a.defaults or a.posonlyargs or a.kwarg is None:
        raise Shape('%s: lambda signature: %s' % (where, ast.unparse(n)))
    params = [x.arg for x in a.args]
    c = n.body
    if not isinstance(c, ast.Call) or c.keywords:
        raise Shape('%s: lambda body: %s' % (where, ast.unparse(n)))
    callee = ast.unparse(c.func)
    callee = binds.get(callee, callee)
    if not callee.startswith('interpret.'):
        raise Shape('%s: the lambda calls %s' % (where, callee))
    return _lam(params, a.kwarg.arg, callee[len('interpret.'):], c.args, wrap, where)


def _lam(params, kw, callee, args, wrap, where):
    out = []
    for x in args:
        if isinstance(x, ast.Constant) and x.value is None:
            out.append('.none')
        elif isinstance(x, (ast.Name, ast.Attribute)):
            out.append('(.name %s)' % _s(ast.unparse(x)))
        else:
            raise Shape('%s: argument %s' % (where, ast.unparse(x)))
    return '{ params := %s, kw := %s, callee := %s, args := [%s], wrap := %s }' % (
        _slist(params), 'none' if kw is None else '(some %s)' % _s(kw), _s(callee), ', '.join(out),
        'none' if wrap is None else '(some %s)' % _s(wrap))


def _binds(stmts, where):
    b = {}
    for s in stmts:
        if not (isinstance(s, ast.Assign) and len(s.targets) == 1 and isinstance(s.targets[0], ast.Name)):
            raise Shape('%s: expected an assignment: %s' % (where, ast.unparse(s)))
        b[s.targets[0].id] = ast.unparse(s.value)
    return b


def _need_action(b, elem, where):
    if b.get('action') != '%s.Action_Semantics_internal' % elem:
        raise Shape('%s: action is %s' % (where, b.get('action')))


def _mk_simple(tree, name, elem):
    """mk_function / mk_bridge: action, label, `return lambda **kwargs: interpret.run_function(metamodel, label, action, kwargs)`"""
    f = _function(tree, name)
    if _plain_params(f, name) != ['metamodel', elem]:
        raise Shape('%s: unexpected signature' % name)
    body = _strip_doc(f.body)
    b = _binds(body[:-1], name)
    _need_action(b, elem, name)
    if set(b) != {'action', 'label'} or not isinstance(body[-1], ast.Return):
        raise Shape('%s: unexpected body' % name)
    return _lambda(body[-1].value, name, b, None)


def _mk_operation(tree):
    f = _function(tree, 'mk_operation')
    if _plain_params(f, 'mk_operation') != ['metaclass', 'o_tfr']:
        raise Shape('mk_operation: unexpected signature')
    body = _strip_doc(f.body)
    b = _binds(body[:-1], 'mk_operation')
    _need_action(b, 'o_tfr', 'mk_operation')
    if set(b) != {'o_obj', 'action', 'label', 'run'}:
        raise Shape('mk_operation: unexpected bindings %s' % sorted(b))
    br = body[-1]
    if not isinstance(br, ast.If) or ast.unparse(br.test) != 'o_tfr.Instance_Based':
        raise Shape('mk_operation: the final statement is not `if o_tfr.Instance_Based:`')

    def branch(stmts, which):
        if len(stmts) == 1 and isinstance(stmts[0], ast.Return):
            v = stmts[0].value
            if isinstance(v, ast.Lambda):
                return _lambda(v, 'mk_operation (%s)' % which, b, None)
        if len(stmts) == 2 and isinstance(stmts[0], ast.Assign) and isinstance(stmts[1], ast.Return) \
                and isinstance(stmts[0].targets[0], ast.Name):
            v = stmts[1].value
            if isinstance(v, ast.Call) and isinstance(v.func, ast.Name) and v.func.id in ('classmethod', 'staticmethod') \
                    and len(v.args) == 1 and not v.keywords and ast.unparse(v.args[0]) == stmts[0].targets[0].id:
                return _lambda(stmts[0].value, 'mk_operation (%s)' % which, b, v.func.id)
        raise Shape('mk_operation (%s): %s' % (which, _src(stmts)))
    return branch(br.body, 'instance based'), branch(br.orelse, 'class based')


def _mk_derived(tree):
    f = _function(tree, 'mk_derived_attribute')
    if _plain_params(f, 'mk_derived_attribute') != ['metaclass', 'o_dbattr']:
        raise Shape('mk_derived_attribute: unexpected signature')
    body = _strip_doc(f.body)
    b = _binds(body[:-1], 'mk_derived_attribute')
    _need_action(b, 'o_dbattr', 'mk_derived_attribute')
    if b.get('o_attr') != 'one(o_dbattr).O_BATTR[107].O_ATTR[106]()' or 'fget' not in b \
            or ast.unparse(body[-1]) != 'return property(fget)':
        raise Shape('mk_derived_attribute: unexpected body')
    p = ast.parse(b['fget'], mode='eval').body
    if not (isinstance(p, ast.Call) and ast.unparse(p.func) == 'functools.partial' and not p.keywords and len(p.args) >= 1
            and ast.unparse(p.args[0]).startswith('interpret.')):
        raise Shape('mk_derived_attribute: fget is %s' % b['fget'])
    # a property getter receives the instance as its only positional argument, after the partially applied ones
    inst = ast.Name(id='<instance>', ctx=ast.Load())
    return _lam(['<instance>'], None, ast.unparse(p.args[0])[len('interpret.'):], list(p.args[1:]) + [inst], 'property',
                'mk_derived_attribute')


def _mk_external_entity(tree):
    f = _function(tree, 'mk_external_entity')
    want = ['bridges = many(s_ee).S_BRG[19]()', 'names = [brg.Name for brg in bridges]',
            'EE = collections.namedtuple(s_ee.Key_Lett, names)', 'funcs = list()',
            'for s_brg in many(s_ee).S_BRG[19]():\n    fn = mk_bridge(metamodel, s_brg)\n    funcs.append(fn)',
            'return EE(*funcs)']
    got = _src(_strip_doc(f.body))
    if _plain_params(f, 'mk_external_entity') != ['metamodel', 's_ee'] or got != want:
        raise Shape('mk_external_entity: %s' % got)
    return ('{ namesFrom := "many(s_ee).S_BRG[19]()", nameOf := "Name", funcsFrom := "many(s_ee).S_BRG[19]()", '
            'maker := "mk_bridge", fields := "names", values := "funcs" }')


def _mk_enum(tree):
    f = _function(tree, 'mk_enum')
    body = _strip_doc(f.body)
    got = _src(body)
    if _plain_params(f, 'mk_enum') != ['s_edt'] or len(body) != 8:
        raise Shape('mk_enum: %s' % got)
    if got[0] != 's_dt = one(s_edt).S_DT[17]()' or got[1] != 'enums = list()' \
            or got[2] != "kwlist = ['False', 'None', 'True'] + keyword.kwlist":
        raise Shape('mk_enum: preamble: %s' % got[:3])
    ff = body[3]
    if not (isinstance(ff, ast.Assign) and ast.unparse(ff.targets[0]) == 'first_filter' and isinstance(ff.value, ast.Lambda)
            and [x.arg for x in ff.value.args.args] == ['sel']):
        raise Shape('mk_enum: first_filter: %s' % got[3])
    t = ff.value.body
    neg = False
    if isinstance(t, ast.UnaryOp) and isinstance(t.op, ast.Not):
        neg, t = True, t.operand
    nav = _nav56(t, 'sel', 'mk_enum: first_filter')
    if got[4] != 'enum = xtuml.navigate_any(s_edt).S_ENUM[27](first_filter)':
        raise Shape('mk_enum: start: %s' % got[4])
    w = body[5]
    if not (isinstance(w, ast.While) and ast.unparse(w.test) == 'enum' and not w.orelse and len(w.body) == 2):
        raise Shape('mk_enum: loop: %s' % got[5])
    app = ast.unparse(w.body[0])
    if app != "if enum.Name in kwlist:\n    enums.append(enum.Name + '_')\nelse:\n    enums.append(enum.Name)":
        raise Shape('mk_enum: append: %s' % app)
    nx = w.body[1]
    if not (isinstance(nx, ast.Assign) and ast.unparse(nx.targets[0]) == 'enum'):
        raise Shape('mk_enum: step: %s' % ast.unparse(nx))
    step = _nav56(nx.value, 'enum', 'mk_enum: step')
    if got[6] != 'Enum = collections.namedtuple(s_dt.Name, enums)':
        raise Shape('mk_enum: namedtuple: %s' % got[6])
    if got[7] != 'return Enum(*range(len(enums)))':
        raise Shape('mk_enum: numbering: %s' % got[7])
    return ('{ firstNegated := %s, firstPhrase := %s, startRel := 27, stepPhrase := %s, chainRel := 56, keywordSuffix := "_",\n'
            '    fields := "enums", numbering := .rangeLen }' % ('true' if neg else 'false', _s(nav), _s(step)))


def _nav56(t, var, where):
    """one(<var>).S_ENUM[56, '<phrase>']() -> phrase"""
    if isinstance(t, ast.Call) and not t.args and not t.keywords and isinstance(t.func, ast.Subscript):
        s = t.func
        if ast.unparse(s.value) == 'one(%s).S_ENUM' % var and isinstance(s.slice, ast.Tuple) and len(s.slice.elts) == 2 \
                and isinstance(s.slice.elts[0], ast.Constant) and s.slice.elts[0].value == 56 \
                and isinstance(s.slice.elts[1], ast.Constant) and isinstance(s.slice.elts[1].value, str):
            return s.slice.elts[1].value
    raise Shape('%s: %s' % (where, ast.unparse(t)))


def _mk_constant(tree):
    f = _function(tree, 'mk_constant')
    body = _strip_doc(f.body)
    got = _src(body)
    if _plain_params(f, 'mk_constant') != ['cnst_syc'] or got[:2] != ['s_dt = one(cnst_syc).S_DT[1500]()',
            'cnst_lsc = one(cnst_syc).CNST_LFSC[1502].CNST_LSC[1503]()']:
        raise Shape('mk_constant: preamble: %s' % got[:2])
    conv = {"cnst_lsc.Value.lower() == 'true'": '.lowerIsTrue', 'int(cnst_lsc.Value)': '.int', 'float(cnst_lsc.Value)': '.float',
            'str(cnst_lsc.Value)': '.str'}
    rows = []
    for s in body[2:]:
        if not (isinstance(s, ast.If) and not s.orelse and len(s.body) == 1 and isinstance(s.body[0], ast.Return)
                and isinstance(s.test, ast.Compare) and len(s.test.ops) == 1 and isinstance(s.test.ops[0], ast.Eq)
                and ast.unparse(s.test.left) == 's_dt.Name' and isinstance(s.test.comparators[0], ast.Constant)
                and isinstance(s.test.comparators[0].value, str) and ast.unparse(s.body[0].value) in conv):
            raise Shape('mk_constant: %s' % ast.unparse(s))
        rows.append('(%s, %s)' % (_s(s.test.comparators[0].value), conv[ast.unparse(s.body[0].value)]))
    return '[' + ', '.join(rows) + ']'


def _domain(tree):
    add = _method(tree, 'Domain', 'add_symbol')
    a = add.args
    if [x.arg for x in a.args] != ['self', 'name', 'handle', 'kind'] or [ast.unparse(d) for d in a.defaults] != ['None']:
        raise Shape('Domain.add_symbol: signature')
    got = _src(_strip_doc(add.body))
    if got != ['self.symbols[name] = handle', 'if kind is not None:\n    self.symbols_by_kind[kind, name] = handle']:
        raise Shape('Domain.add_symbol: %s' % got)
    fs = _method(tree, 'Domain', 'find_symbol')
    a = fs.args
    if [x.arg for x in a.args] != ['self', 'name', 'kind'] or [ast.unparse(d) for d in a.defaults] != ['None']:
        raise Shape('Domain.find_symbol: signature')
    body = _strip_doc(fs.body)
    got = _src(body)
    if len(body) < 2 or got[0] != 'kinds = [kind] if isinstance(kind, str) else kind or []':
        raise Shape('Domain.find_symbol: normalisation of kind: %s' % got[:1])
    loop = body[1]
    if not (isinstance(loop, ast.For) and ast.unparse(loop.target) == 'k' and ast.unparse(loop.iter) == 'kinds'
            and not loop.orelse):
        raise Shape('Domain.find_symbol: loop: %s' % got[1])
    probes = {('(k, name) in self.symbols_by_kind', 'return self.symbols_by_kind[k, name]'): '.byKind',
              ("k == 'class' and name.upper() in self.metaclasses", 'return self.find_class(name)'): '(.classWhenKind "class")',
              ('name in self.symbols', 'return self.symbols[name]'): '.untyped'}

    def probe(s):
        if isinstance(s, ast.If) and not s.orelse and len(s.body) == 1:
            k = (ast.unparse(s.test), ast.unparse(s.body[0]))
            if k in probes:
                return probes[k]
        if ast.unparse(s) == "try:\n    return self.find_class(name)\nexcept:\n    raise OoaOfOoaException('Unknown symbol %s' % name)":
            return '.findClass'
        raise Shape('Domain.find_symbol: %s' % ast.unparse(s))
    per = [probe(s) for s in loop.body]
    after = [probe(s) for s in body[2:]]
    if any(p not in ('.byKind', '(.classWhenKind "class")') for p in per) or any(p not in ('.untyped', '.findClass') for p in after):
        raise Shape('Domain.find_symbol: probes %s / %s' % (per, after))
    return ('{ addUntyped := true, addByKindIfKind := true, kindsInOrder := true,\n    perKind := [%s],\n    afterKinds := [%s] }'
            % (', '.join(per), ', '.join(after)))


def _registrations(tree):
    """the add_symbol calls of mk_component: (key, maker, kind)"""
    f = _function(tree, 'mk_component')
    rows = []
    for n in ast.walk(f):
        if isinstance(n, ast.Call) and ast.unparse(n.func) == 'target.add_symbol':
            if len(n.args) != 3 or n.keywords or not (isinstance(n.args[2], ast.Constant) and isinstance(n.args[2].value, str)):
                raise Shape('mk_component: %s' % ast.unparse(n))
            rows.append((n.lineno, n.col_offset, ast.unparse(n.args[0]), ast.unparse(n.args[1]), n.args[2].value))
    rows.sort()
    # what the second argument is bound to
    made = {}
    for n in ast.walk(f):
        if isinstance(n, ast.Assign) and len(n.targets) == 1 and isinstance(n.targets[0], ast.Name) \
                and isinstance(n.value, ast.Call) and isinstance(n.value.func, ast.Name) and n.value.func.id.startswith('mk_'):
            if made.get(n.targets[0].id, n.value.func.id) != n.value.func.id:
                raise Shape('mk_component: %s is bound to two makers' % n.targets[0].id)
            made[n.targets[0].id] = n.value.func.id
    out = []
    for _, _, key, val, kind in rows:
        out.append('(%s, %s, %s)' % (_s(key), _s(made.get(val, val)), _s(kind)))
    return '[' + ',\n   '.join(out) + ']'


HEADER = '''/-
  GENERATED by translator/gen_callshape.py from bridgepoint/interpret.py and bridgepoint/ooaofooa.py — do not edit.
  The statement structure of everything between an OAL invocation and the body it runs (parameter list, the five invocation
  handlers, enumerator access, the walkers and their run functions, Domain.add_symbol / find_symbol, the mk_* constructors),
  close to one to one, as a first-order IR.  Props/C15.lean proves that the clauses of the reference semantics
  (PyxModel/Interp/Spec.lean, Model.lean) equal the generic interpretation (Proofs/CallShape.lean) of this IR.
-/
namespace Pyx.Gen.CallShape

/-- a string handed on -/
inductive Str where
  | field (f : String)              -- node.<f>
  | localField (v f : String)       -- <v>.<f>
  | lit (s : String)                -- '<s>'
  deriving DecidableEq, Repr

/-- an argument of a constructor call -/
inductive Arg where
  | name (v : String)               -- <v>            (in a LambdaShape: any name or dotted name of the enclosing mk_*)
  | attr (v a : String)             -- <v>.<a>
  | none                            -- None
  deriving DecidableEq, Repr

inductive CExpr where
  | local (v : String)                                   -- <v>
  | none                                                 -- None
  | newDict                                              -- dict()
  | accept (child : String)                              -- self.accept(node.<child>)
  | acceptFget (child : String)                          -- self.accept(node.<child>).fget()
  | acceptOfFget (v f : String)                          -- self.accept(<v>.<f>).fget()
  | acceptLocal (v : String)                             -- self.accept(<v>)
  | acceptOn (w v : String)                              -- <w>.accept(<v>)
  | domainFind (name : Str) (kinds : List String) (asList : Bool)   -- self.domain.find_symbol(<name>, '<k>' | ['<k>', …])
  | getattr (obj : String) (name : Str)                  -- getattr(<obj>, <name>)
  | getattrClass (obj : String) (name : Str)             -- getattr(<obj>.__class__, <name>)
  | callKw (fn : String) (pos : List String) (kw : String)   -- <fn>(<pos…>, **<kw>)
  | property (v : String)                                -- property(lambda: <v>)
  | propertySelf (attr : String)                         -- property(lambda: self.<attr>)
  | propertyAttr (obj : String) (name : Str)             -- property(fget = getattr of <obj>.<name>, fset = setattr of it); obj "self" = the walker
  | selfAttr (attr : String)                             -- self.<attr>
  | selfAttrAt (attr : String) (key : Str)               -- self.<attr>[<key>]
  | localAttr (v attr : String)                          -- <v>.<attr>
  | construct (cls : String) (args : List Arg)           -- <cls>(<args…>)
  | parse (action label : String)                        -- oal.parse(<action>, <label>)
  | baseCall (cls method : String) (args : List String)  -- <cls>.<method>(self, <args…>)
  deriving Repr

inductive Cond where
  | lowerEq (v lit : String)                             -- <v>.lower() == '<lit>'
  | fieldEqSelf (f attr : String)                        -- node.<f> == self.<attr>
  | localEqSelf (v attr : String)                        -- <v> == self.<attr>
  | both (a b : Cond)                                    -- <a> and <b>
  deriving Repr

inductive CStmt where
  | assign (dst : String) (e : CExpr)                    -- <dst> = <e>
  | setItem (dict : String) (key : Str) (v : String)     -- <dict>[<key>] = <v>          (<dict> a LOCAL)
  | setSelf (attr : String) (e : CExpr)                  -- self.<attr> = <e>
  | setSelfItem (attr : String) (key : Str) (v : String) -- self.<attr>[<key>] = <v>
  | expr (e : CExpr)                                     -- <e>
  | ret (e : CExpr)                                      -- return <e>
  | forChildren (var : String) (body : List CStmt)       -- for <var> in node.children: …
  | ifCond (c : Cond) (thn els : List CStmt)             -- if <c>: … else: …

/-- a function definition: its parameters (without `self`) and its body -/
structure Def where
  params : List String
  body : List CStmt

structure WalkerClass where
  name : String
  bases : List String
  noneAttrs : List String
  methods : List String
  deriving DecidableEq, Repr

/-- `lambda <params…>, **<kw>: <callee>(<args…>)`, optionally wrapped (classmethod: the first parameter is bound to the class;
    property: the getter `functools.partial(<callee>, <args without the last>)` receives the instance as "<instance>") -/
structure LambdaShape where
  params : List String
  kw : Option String
  callee : String                 -- a function of bridgepoint.interpret
  args : List Arg
  wrap : Option String
  deriving DecidableEq, Repr

structure ExternalEntityShape where
  namesFrom : String
  nameOf : String
  funcsFrom : String
  maker : String
  fields : String                 -- namedtuple(<key letters>, <fields>)
  values : String                 -- EE(*<values>)
  deriving DecidableEq, Repr

inductive Numbering where
  | rangeLen                      -- Enum(*range(len(enums)))
  deriving DecidableEq, Repr

/-- mk_enum: `first_filter = lambda sel: [not] one(sel).S_ENUM[56, <firstPhrase>]()`, start = any S_ENUM across R<startRel>
    that passes it, `while enum:` append its name (+ <keywordSuffix> for a Python keyword), `enum = one(enum).S_ENUM[56,
    <stepPhrase>]()`; the namedtuple's fields are the names, its values `range(len(enums))` -/
structure EnumShape where
  firstNegated : Bool
  firstPhrase : String
  startRel : Nat
  stepPhrase : String
  chainRel : Nat
  keywordSuffix : String
  fields : String
  numbering : Numbering
  deriving DecidableEq, Repr

inductive Conv where
  | lowerIsTrue                   -- cnst_lsc.Value.lower() == 'true'
  | int                           -- int(cnst_lsc.Value)
  | float                         -- float(cnst_lsc.Value)
  | str                           -- str(cnst_lsc.Value)
  deriving DecidableEq, Repr

inductive Probe where
  | byKind                        -- if (k, name) in self.symbols_by_kind: return self.symbols_by_kind[(k, name)]
  | classWhenKind (k : String)    -- if k == '<k>' and name.upper() in self.metaclasses: return self.find_class(name)
  | untyped                       -- if name in self.symbols: return self.symbols[name]
  | findClass                     -- try: return self.find_class(name) except: raise OoaOfOoaException
  deriving DecidableEq, Repr

/-- Domain.add_symbol (always the untyped dictionary; the kind-qualified one when a kind is given) and Domain.find_symbol
    (`for k in kinds:` the probes `perKind` in order; then `afterKinds`; then the exception) -/
structure DomainShape where
  addUntyped : Bool
  addByKindIfKind : Bool
  kindsInOrder : Bool
  perKind : List Probe
  afterKinds : List Probe
  deriving DecidableEq, Repr

'''


def generate(repo_dir):
    itree = ast.parse(open(os.path.join(repo_dir, 'bridgepoint', 'interpret.py'), encoding='utf-8').read())
    otree = ast.parse(open(os.path.join(repo_dir, 'bridgepoint', 'ooaofooa.py'), encoding='utf-8').read())
    out = [HEADER]
    _interpret(itree, out)
    out.append('/-- `mk_function(metamodel, s_sync)`: action = s_sync.Action_Semantics_internal -/')
    out.append('def mk_function : LambdaShape :=\n  %s\n' % _mk_simple(otree, 'mk_function', 's_sync'))
    out.append('/-- `mk_bridge(metamodel, s_brg)`: action = s_brg.Action_Semantics_internal -/')
    out.append('def mk_bridge : LambdaShape :=\n  %s\n' % _mk_simple(otree, 'mk_bridge', 's_brg'))
    inst, cls = _mk_operation(otree)
    out.append('/-- `mk_operation(metaclass, o_tfr)`, `if o_tfr.Instance_Based:` (run = interpret.run_operation) -/')
    out.append('def mk_operation_instance_based : LambdaShape :=\n  %s\n' % inst)
    out.append('/-- `mk_operation(metaclass, o_tfr)`, `else:` -/')
    out.append('def mk_operation_class_based : LambdaShape :=\n  %s\n' % cls)
    out.append('/-- `mk_derived_attribute(metaclass, o_dbattr)`: property(functools.partial(…)) -/')
    out.append('def mk_derived_attribute : LambdaShape :=\n  %s\n' % _mk_derived(otree))
    out.append('def mk_external_entity : ExternalEntityShape :=\n  %s\n' % _mk_external_entity(otree))
    out.append('def mk_enum : EnumShape :=\n  %s\n' % _mk_enum(otree))
    out.append('/-- `mk_constant(cnst_syc)`: `if s_dt.Name == <type>: return <conversion>` in order; else None -/')
    out.append('def mk_constant : List (String × Conv) :=\n  %s\n' % _mk_constant(otree))
    out.append('def domain : DomainShape :=\n  %s\n' % _domain(otree))
    out.append('/-- the `target.add_symbol(<key>, <what>, <kind>)` calls of mk_component in source order: (key, maker or value, kind) -/')
    out.append('def registrations : List (String × String × String) :=\n  %s\n' % _registrations(otree))
    out.append('end Pyx.Gen.CallShape\n')
    return [('CallShape.lean', '\n'.join(out))]


if __name__ == '__main__':
    import sys
    for name, text in generate(sys.argv[1] if len(sys.argv) > 1 else '/repo'):
        sys.stdout.write(text)
