"""xtuml/load.py -> lean/Gen/BuildShape.lean:
Reads, with `ast` only, the statement structure of the loader's top-level control flow:

  ModelLoader.populate          the ORDER of the `self.populate_<phase>(metamodel)` calls
  ModelLoader.build_metamodel   create the metamodel, populate it, return it
  ModelLoader.input             the order of "parse the whole text" and "extend self.statements"
  ModelLoader.populate_associations   `define_association(...)` followed by `ass.formalize()` per statement

Every statement outside the expected shape raises (= broken tie).  Props/C12.lean proves that the model's `build`
is the generic interpretation of the generated phase order and that `input` parses before it extends, so reordering
phases or extending before the parse has succeeded changes this table and breaks those theorems.
"""
import ast
import os

OUTPUTS = ['BuildShape.lean']


def _strip_doc(body):
    body = list(body)
    if body and isinstance(body[0], ast.Expr) and isinstance(getattr(body[0], 'value', None), ast.Constant) \
            and isinstance(body[0].value.value, str):
        body = body[1:]
    return body


def _method(tree, cls, name):
    for n in tree.body:
        if isinstance(n, ast.ClassDef) and n.name == cls:
            for f in n.body:
                if isinstance(f, ast.FunctionDef) and f.name == name:
                    return f
    raise ValueError('%s.%s not found' % (cls, name))


def generate(repo_dir):
    path = os.path.join(repo_dir, 'xtuml', 'load.py')
    tree = ast.parse(open(path, encoding='utf-8').read())

    # populate: a straight sequence of self.populate_<phase>(metamodel)
    pop = _method(tree, 'ModelLoader', 'populate')
    arg = pop.args.args[1].arg
    phases = []
    for st in _strip_doc(pop.body):
        ok = (isinstance(st, ast.Expr) and isinstance(st.value, ast.Call) and isinstance(st.value.func, ast.Attribute)
              and isinstance(st.value.func.value, ast.Name) and st.value.func.value.id == 'self'
              and st.value.func.attr.startswith('populate_') and len(st.value.args) == 1 and not st.value.keywords
              and isinstance(st.value.args[0], ast.Name) and st.value.args[0].id == arg)
        if not ok:
            raise ValueError('populate: unexpected statement %s' % ast.unparse(st))
        phases.append(st.value.func.attr[len('populate_'):])
    if len(set(phases)) != len(phases) or not all(p.isidentifier() and p.isascii() for p in phases):
        raise ValueError('populate: phases %r' % (phases,))

    # build_metamodel: m = xtuml.MetaModel(id_generator); self.populate(m); return m
    bm_body = _strip_doc(_method(tree, 'ModelLoader', 'build_metamodel').body)
    # the names of the LOCAL variables carry no meaning: v0, v1, … in the order in which they are first bound
    bound = {}
    for st in bm_body:
        for node in ast.walk(st):
            if isinstance(node, ast.Name) and isinstance(node.ctx, ast.Store):
                bound.setdefault(node.id, 'v%d' % len(bound))

    class _Rename(ast.NodeTransformer):
        def visit_Name(self, node):
            return ast.copy_location(ast.Name(id=bound.get(node.id, node.id), ctx=node.ctx), node)
    bm = [ast.unparse(_Rename().visit(st)) for st in bm_body]
    # input: lexer creation / bookkeeping, then `s = self.parser.parse(...)`, then `self.statements.extend(s)`
    inp = _strip_doc(_method(tree, 'ModelLoader', 'input').body)
    steps = []
    for st in inp:
        src = ast.unparse(st)
        if '.parse(' in src:
            if not (isinstance(st, ast.Assign) and len(st.targets) == 1 and isinstance(st.targets[0], ast.Name)):
                raise ValueError('input: the parse result is not bound to a name: %s' % src)
            steps.append(('parse', st.targets[0].id))
        elif 'self.statements' in src:
            if not (isinstance(st, ast.Expr) and isinstance(st.value, ast.Call) and ast.unparse(st.value.func) == 'self.statements.extend'
                    and len(st.value.args) == 1 and isinstance(st.value.args[0], ast.Name)):
                raise ValueError('input: unexpected use of self.statements: %s' % src)
            steps.append(('extend', st.value.args[0].id))
        elif isinstance(st, (ast.Try, ast.With, ast.If, ast.For, ast.While, ast.Return)):
            raise ValueError('input: unexpected control flow: %s' % src.split('\n')[0])
    # the NAMES of the local variables carry no meaning: v0, v1, … in the order of their first occurrence, so that only
    # "the value that is appended is the value the parse returned" is recorded
    canon = {}
    steps = [(what, canon.setdefault(name, 'v%d' % len(canon))) for what, name in steps]
    # populate_associations: per statement define_association(...) then ass.formalize()
    pa = _method(tree, 'ModelLoader', 'populate_associations')
    loops = [st for st in _strip_doc(pa.body) if isinstance(st, ast.For)]
    if len(loops) != 1:
        raise ValueError('populate_associations: expected one loop')
    calls = []
    for st in loops[0].body:
        src = ast.unparse(st)
        if 'define_association' in src:
            calls.append('define_association')
        elif '.formalize()' in src:
            calls.append('formalize')
    o = []
    o.append('/-! GENERATED by translator/gen_buildshape.py from xtuml/load.py -- do not edit.')
    o.append('    Top-level control flow of the loader: phase order of `populate`, shape of `build_metamodel` and `input`. -/')
    o.append('namespace Gen.BuildShape')
    o.append('')
    o.append('/-- the `populate_<phase>` methods `ModelLoader.populate` calls -/')
    o.append('inductive Phase where')
    for p in phases:
        o.append('  | %s' % p)
    o.append('  deriving DecidableEq, Repr')
    o.append('')
    o.append('/-- … in this order -/')
    o.append('def populateOrder : List Phase := [%s]' % ', '.join('.%s' % p for p in phases))
    o.append('')
    o.append('/-- the statements of `build_metamodel` -/')
    o.append('def buildMetamodel : List String := [%s]' % ', '.join('"%s"' % s.replace('\\', '\\\\').replace('"', '\\"') for s in bm))
    o.append('')
    o.append('/-- `input`: which step comes first, and on which name; (step, variable) -/')
    o.append('def inputSteps : List (String × String) := [%s]' % ', '.join('("%s", "%s")' % s for s in steps))
    o.append('')
    o.append('/-- per CREATE ROP statement in `populate_associations` -/')
    o.append('def associationCalls : List String := [%s]' % ', '.join('"%s"' % c for c in calls))
    o.append('')
    o.append('end Gen.BuildShape')
    o.append('')
    return [('BuildShape.lean', '\n'.join(o))]
