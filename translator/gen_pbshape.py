"""bridgepoint/prebuild.py -> lean/Gen/PbShape.lean:
Reads, with `ast` only, the STATEMENT STRUCTURE of the helpers and `accept_*` handlers of `ActionPrebuilder` that lie inside the
subset modelled by PyxModel/Prebuild/Flat.lean and emits it, close to one to one, as a small first-order IR:

  atoms `A`       locals, None / True / False, string and integer constants, `node.<f>(.<g>)`, `self.<f>`, `<a>.<Attr>`,
                  `<a>.lower()`, `str(<a>).upper()`, `<a>[1:-1]`, `<a>.__class__.__name__`
  expressions `E` `self.<helper>(args, kw=…, **kwargs)`, `self.symtab.<m>(args, kind='…')`, `self.accept(node.<child>, kw=…)`,
                  `self.new('<CLASS>', Attr=<a>, …)` (keywords IN ORDER), navigations `one(<a>).<CLS>[<n>(, '<phrase>')]…(<filter>?)`
                  with the filter (`where(K=<a>)`, `lambda sel: [not] sel.isSet`), `subtype(<a>, <n>)`, `<a> in [<a>, …]`
                  (a list of CALLS is unfolded into `==` / `or`), `or` / `and` / `not` / `is None` / `==`
  statements `S`  `<x> = <E>`, `<x>.<Attr> = <a>`, `self.<f> = <a>`, `relate(a, b, <n>[, '<phrase>'])` with the argument ORDER as
                  written and whether it is the asserting module-level `relate` or `xtuml.relate`, expression statements,
                  if / elif / else, `for <x> in [reversed(]node.children[)]`, while, return, raise

Every statement or expression outside this fragment raises (= broken tie); a method of the list that is missing raises; the
`find_symbol` overrides of Operation- / Transition- / DerivedAttributePrebuilder must be identical and are emitted once.
Methods of ActionPrebuilder that are NOT listed (event statements, select related, invocations, assignment, index access,
structure members, port messages) are outside the modelled subset and are not read.
Props/C06.lean (`*_as_in_source`) proves that clauses of PyxModel/Prebuild/Flat.lean equal a generic interpretation
(Proofs/PbShape.lean) of this IR.
"""
import ast
import os

OUTPUTS = ['PbShape.lean']

HELPERS = ['v_val', 'v_var', 'v_int', 'v_ins', 'v_trn', 'v_isr', 'v_irf', 'v_avl', 'act_smt', 's_dt', 'find_symbol']
HANDLERS = ['accept_BodyNode', 'accept_BlockNode', 'accept_StatementListNode', 'accept_ReturnNode', 'accept_BreakNode',
            'accept_ContinueNode', 'accept_ControlNode', 'accept_CreateObjectNode', 'accept_CreateObjectNoVariableNode',
            'accept_DeleteNode', 'accept_RelateNode', 'accept_RelateUsingNode', 'accept_UnrelateNode',
            'accept_UnrelateUsingNode', 'accept_SelectFromNode', 'accept_SelectFromWhereNode', 'accept_ForEachNode',
            'accept_IfNode', 'accept_ElIfListNode', 'accept_ElIfNode', 'accept_ElseNode', 'accept_WhileNode',
            'accept_FieldAccessNode', 'accept_SelectedAccessNode', 'accept_SelfAccessNode', 'accept_VariableAccessNode',
            'accept_BinaryOperationNode', 'accept_UnaryOperationNode', 'accept_BooleanNode', 'accept_IntegerNode',
            'accept_RealNode', 'accept_StringNode', 'accept_EnumOrNamedConstantNode']
SELF_HOMES = ['OperationPrebuilder', 'TransitionPrebuilder', 'DerivedAttributePrebuilder']
SELF_CALLS = set(HELPERS) | {'o_obj', 'r_rel', 'cnst_syc', 'any', 'v_mvl'}
SYMTAB = {'find_symbol', 'install_symbol', 'enter_scope', 'leave_scope'}


class Shape(ValueError):
    pass


def _s(s):
    out = []
    for ch in s:
        o = ord(ch)
        if ch == '"':
            out.append('\\"')
        elif ch == '\\':
            out.append('\\\\')
        elif ch == '\n':
            out.append('\\n')
        elif 32 <= o < 127:
            out.append(ch)
        else:
            out.append('\\u{%x}' % o)
    return '"' + ''.join(out) + '"'


def _strip_doc(body):
    body = list(body)
    if body and isinstance(body[0], ast.Expr) and isinstance(getattr(body[0], 'value', None), ast.Constant) \
            and isinstance(body[0].value.value, str):
        body = body[1:]
    return body


def _is_self(n, attr=None):
    return isinstance(n, ast.Attribute) and isinstance(n.value, ast.Name) and n.value.id == 'self' \
        and (attr is None or n.attr == attr)


class Fn(object):
    def __init__(self, name, params):
        self.where = name
        self.locals = set(params)

    def fail(self, node, what='outside the translated fragment'):
        raise Shape('%s: %s: %s' % (self.where, what, ast.unparse(node) if isinstance(node, ast.AST) else node))

    # ------------------------------------------------------------------- atoms
    def atom(self, n, soft=False):
        if isinstance(n, ast.Name):
            if n.id in self.locals:
                if n.id == 'node':
                    return '(.node [])'
                return '(.loc %s)' % _s(n.id)
            if soft:
                return None
            self.fail(n, 'expected a local variable')
        if isinstance(n, ast.Constant):
            if n.value is None:
                return '.none'
            if n.value is True:
                return '.tt'
            if n.value is False:
                return '.ff'
            if isinstance(n.value, str):
                return '(.str %s)' % _s(n.value)
            if isinstance(n.value, int) and n.value >= 0:
                return '(.nat %d)' % n.value
            self.fail(n, 'constant')
        if isinstance(n, ast.Attribute):
            path, cur = [], n
            while isinstance(cur, ast.Attribute):
                path.append(cur.attr)
                cur = cur.value
            path.reverse()
            if isinstance(cur, ast.Name) and cur.id == 'node' and 'node' in self.locals:
                return '(.node [%s])' % ', '.join(_s(p) for p in path)
            if isinstance(cur, ast.Name) and cur.id == 'self' and len(path) == 1 and path[0] != 'symtab':
                return '(.selfField %s)' % _s(path[0])
            if n.attr == '__name__' and isinstance(n.value, ast.Attribute) and n.value.attr == '__class__':
                a = self.atom(n.value.value, soft)
                return None if a is None else '(.className %s)' % a
            if isinstance(n.value, ast.Name) and n.value.id in self.locals:
                return '(.attr %s %s)' % (self.atom(n.value), _s(n.attr))
            if soft:
                return None
            self.fail(n, 'attribute access')
        if isinstance(n, ast.Call) and not n.keywords:
            f = n.func
            if isinstance(f, ast.Attribute) and f.attr == 'lower' and not n.args:
                a = self.atom(f.value, soft)
                return None if a is None else '(.lower %s)' % a
            if isinstance(f, ast.Attribute) and f.attr == 'upper' and not n.args and isinstance(f.value, ast.Call) \
                    and isinstance(f.value.func, ast.Name) and f.value.func.id == 'str' and len(f.value.args) == 1 \
                    and not f.value.keywords:
                a = self.atom(f.value.args[0], soft)
                return None if a is None else '(.strUpper %s)' % a
        if isinstance(n, ast.Subscript) and isinstance(n.slice, ast.Slice):
            sl = n.slice
            if sl.step is None and isinstance(sl.lower, ast.Constant) and sl.lower.value == 1 \
                    and isinstance(sl.upper, ast.UnaryOp) and isinstance(sl.upper.op, ast.USub) \
                    and isinstance(sl.upper.operand, ast.Constant) and sl.upper.operand.value == 1:
                a = self.atom(n.value, soft)
                return None if a is None else '(.slice1m1 %s)' % a
        if soft:
            return None
        self.fail(n, 'atom')

    def atoms(self, ns):
        return '[' + ', '.join(self.atom(a) for a in ns) + ']'

    def kwargs(self, call):
        out, star = [], False
        for k in call.keywords:
            if k.arg is None:
                if not (isinstance(k.value, ast.Name) and k.value.id == 'kwargs') or star:
                    self.fail(call, '** argument')
                star = True
            else:
                if star:
                    self.fail(call, 'keyword after **kwargs')
                out.append('(%s, %s)' % (_s(k.arg), self.atom(k.value)))
        return '[' + ', '.join(out) + ']', star

    # ------------------------------------------------------------------- expressions
    def filt(self, call):
        if call.keywords or len(call.args) > 1:
            self.fail(call, 'navigation call')
        if not call.args:
            return '.all'
        a = call.args[0]
        if isinstance(a, ast.Call) and isinstance(a.func, ast.Name) and a.func.id == 'where' and not a.args \
                and len(a.keywords) == 1 and a.keywords[0].arg:
            return '(.whereEq %s %s)' % (_s(a.keywords[0].arg), self.atom(a.keywords[0].value))
        if isinstance(a, ast.Lambda) and len(a.args.args) == 1 and not (a.args.vararg or a.args.kwarg or a.args.defaults):
            p, b, neg = a.args.args[0].arg, a.body, False
            if isinstance(b, ast.UnaryOp) and isinstance(b.op, ast.Not):
                b, neg = b.operand, True
            if isinstance(b, ast.Attribute) and isinstance(b.value, ast.Name) and b.value.id == p:
                return '(.flag %s %s)' % (_s(b.attr), 'true' if neg else 'false')
        self.fail(call, 'navigation filter')

    def nav(self, n):
        """one(<atom>).<KL>[<rel>(, '<phrase>')]...(<filter>?) -> text or None"""
        if not (isinstance(n, ast.Call) and isinstance(n.func, ast.Subscript)):
            return None
        steps, cur = [], n.func
        while isinstance(cur, ast.Subscript):
            if not isinstance(cur.value, ast.Attribute):
                return None
            sl = cur.slice
            if isinstance(sl, ast.Constant) and isinstance(sl.value, int) and not isinstance(sl.value, bool):
                rel, phrase = sl.value, ''
            elif isinstance(sl, ast.Tuple) and len(sl.elts) == 2 and all(isinstance(e, ast.Constant) for e in sl.elts) \
                    and isinstance(sl.elts[0].value, int) and isinstance(sl.elts[1].value, str):
                rel, phrase = sl.elts[0].value, sl.elts[1].value
            else:
                self.fail(n, 'navigation step')
            steps.append((cur.value.attr, rel, phrase))
            cur = cur.value.value
        if not (isinstance(cur, ast.Call) and isinstance(cur.func, ast.Name) and cur.func.id in ('one', 'any', 'many')
                and len(cur.args) == 1 and not cur.keywords):
            return None
        steps.reverse()
        return '(.nav .%s %s [%s] %s)' % (cur.func.id, self.atom(cur.args[0]),
                                        ', '.join('⟨%s, %d, %s⟩' % (_s(c), r, _s(p)) for c, r, p in steps), self.filt(n))

    def expr(self, n):
        a = self.atom(n, soft=True)
        if a is not None:
            return '(.atom %s)' % a
        if isinstance(n, ast.BoolOp):
            parts = [self.expr(v) for v in n.values]
            op = '.and_' if isinstance(n.op, ast.And) else '.or_'
            out = parts[-1]
            for p in reversed(parts[:-1]):
                out = '(%s %s %s)' % (op, p, out)
            return out
        if isinstance(n, ast.UnaryOp) and isinstance(n.op, ast.Not):
            return '(.not_ %s)' % self.expr(n.operand)
        if isinstance(n, ast.Compare) and len(n.ops) == 1:
            op, rhs = n.ops[0], n.comparators[0]
            if isinstance(op, ast.Is) and isinstance(rhs, ast.Constant) and rhs.value is None:
                return '(.isNone %s)' % self.expr(n.left)
            if isinstance(op, ast.Eq):
                return '(.eq %s %s)' % (self.expr(n.left), self.expr(rhs))
            if isinstance(op, ast.In) and isinstance(rhs, ast.List) and rhs.elts:
                left = self.atom(n.left)
                if all(self.atom(e, soft=True) is not None for e in rhs.elts):
                    return '(.memOf %s %s)' % (left, self.atoms(rhs.elts))
                # a list of calls: `x in [f(a), f(b)]` unfolded into `x == f(a) or x == f(b)`
                parts = ['(.eq (.atom %s) %s)' % (left, self.expr(e)) for e in rhs.elts]
                out = parts[-1]
                for p in reversed(parts[:-1]):
                    out = '(.or_ %s %s)' % (p, out)
                return out
            self.fail(n, 'comparison')
        if isinstance(n, ast.Call):
            t = self.nav(n)
            if t is not None:
                return t
            f = n.func
            if isinstance(f, ast.Name) and f.id == 'subtype' and len(n.args) == 2 and not n.keywords \
                    and isinstance(n.args[1], ast.Constant) and isinstance(n.args[1].value, int):
                return '(.subtype %s %d)' % (self.atom(n.args[0]), n.args[1].value)
            if _is_self(f, 'accept'):
                if len(n.args) != 1:
                    self.fail(n, 'accept arguments')
                kw, star = self.kwargs(n)
                if star:
                    self.fail(n, 'accept **kwargs')
                return '(.accept %s %s)' % (self.atom(n.args[0]), kw)
            if _is_self(f, 'new'):
                if len(n.args) != 1 or not isinstance(n.args[0], ast.Constant) or not isinstance(n.args[0].value, str):
                    self.fail(n, 'new arguments')
                kw, star = self.kwargs(n)
                return '(.new %s %s %s)' % (_s(n.args[0].value), kw, 'true' if star else 'false')
            if _is_self(f) and f.attr in SELF_CALLS:
                kw, star = self.kwargs(n)
                args = list(n.args)
                if f.attr == 'any':
                    # self.any('S_DT', where(Name=name))
                    if len(args) == 2 and isinstance(args[0], ast.Constant) and isinstance(args[1], ast.Call) \
                            and isinstance(args[1].func, ast.Name) and args[1].func.id == 'where' \
                            and len(args[1].keywords) == 1 and not args[1].args and not n.keywords:
                        k = args[1].keywords[0]
                        return '(.selectAny %s %s %s)' % (_s(args[0].value), _s(k.arg), self.atom(k.value))
                    self.fail(n, 'self.any')
                return '(.call %s %s %s %s)' % (_s(f.attr), self.atoms(args), kw, 'true' if star else 'false')
            if isinstance(f, ast.Attribute) and _is_self(f.value, 'symtab') and f.attr in SYMTAB:
                kw, star = self.kwargs(n)
                if star:
                    self.fail(n, 'symtab **kwargs')
                return '(.symtab %s %s %s)' % (_s(f.attr), self.atoms(n.args), kw)
            if isinstance(f, ast.Attribute) and ast.unparse(f) == 'ActionPrebuilder.find_symbol' and not n.keywords \
                    and len(n.args) == 3 and isinstance(n.args[0], ast.Name) and n.args[0].id == 'self':
                return '(.call "ActionPrebuilder.find_symbol" %s [] false)' % self.atoms(n.args[1:])
        self.fail(n, 'expression')

    # ------------------------------------------------------------------- statements
    def stmts(self, body):
        return [self.stmt(s) for s in body]

    def relate(self, c):
        f = c.func
        if isinstance(f, ast.Name) and f.id == 'relate':
            assertive = 'true'
        elif ast.unparse(f) == 'xtuml.relate':
            assertive = 'false'
        else:
            return None
        if c.keywords or len(c.args) not in (3, 4) or not isinstance(c.args[2], ast.Constant) \
                or not isinstance(c.args[2].value, int):
            self.fail(c, 'relate arguments')
        phrase = ''
        if len(c.args) == 4:
            if not isinstance(c.args[3], ast.Constant) or not isinstance(c.args[3].value, str):
                self.fail(c, 'relate phrase')
            phrase = c.args[3].value
        return '.relate %s %s %s %d %s' % (assertive, self.atom(c.args[0]), self.atom(c.args[1]), c.args[2].value, _s(phrase))

    def stmt(self, st):
        if isinstance(st, ast.Return):
            return '.ret %s' % ('(.atom .none)' if st.value is None else self.expr(st.value))
        if isinstance(st, ast.Raise):
            return '.raise'
        if isinstance(st, ast.Assign):
            if len(st.targets) != 1:
                self.fail(st, 'assignment target')
            t = st.targets[0]
            if isinstance(t, ast.Name):
                out = '.assign %s %s' % (_s(t.id), self.expr(st.value))
                self.locals.add(t.id)
                return out
            if isinstance(t, ast.Attribute) and isinstance(t.value, ast.Name):
                if t.value.id == 'self':
                    return '.setSelf %s %s' % (_s(t.attr), self.atom(st.value))
                if t.value.id in self.locals:
                    return '.setAttr %s %s %s' % (_s(t.value.id), _s(t.attr), self.atom(st.value))
            self.fail(st, 'assignment target')
        if isinstance(st, ast.Expr):
            c = st.value
            if isinstance(c, ast.Call):
                r = self.relate(c)
                if r is not None:
                    return r
                return '.expr %s' % self.expr(c)
            self.fail(st, 'expression statement')
        if isinstance(st, ast.If):
            return ('.ifThen %s' % self.expr(st.test), [self.stmts(st.body), self.stmts(st.orelse)])
        if isinstance(st, ast.While):
            if st.orelse:
                self.fail(st, 'while ... else')
            return ('.whileDo %s' % self.expr(st.test), [self.stmts(st.body)])
        if isinstance(st, ast.For):
            if st.orelse or not isinstance(st.target, ast.Name):
                self.fail(st, 'for loop')
            it = ast.unparse(st.iter)
            if it == 'node.children':
                rev = 'false'
            elif it == 'reversed(node.children)':
                rev = 'true'
            else:
                self.fail(st, 'for loop iterable')
            self.locals.add(st.target.id)
            return ('.forChildren %s %s' % (_s(st.target.id), rev), [self.stmts(st.body)])
        self.fail(st, 'statement outside the translated fragment')


def _render_block(items, ind):
    if not items:
        return '[]'
    pad = ' ' * (ind + 2)
    return '[\n' + ',\n'.join(pad + _render(i, ind + 2) for i in items) + ' ]'


def _render(item, ind):
    if isinstance(item, str):
        return item
    return '%s %s' % (item[0], ' '.join(_render_block(b, ind) for b in item[1]))


HEADER = '''/-
  GENERATED by translator/gen_pbshape.py from bridgepoint/prebuild.py — do not edit.
  The statement structure of the helpers and `accept_*` handlers of ActionPrebuilder inside the subset modelled by
  PyxModel/Prebuild/Flat.lean, close to one to one, as a first-order IR.  Props/C06.lean (`*_as_in_source`) proves that clauses
  of Flat.lean equal the generic interpretation (Proofs/PbShape.lean) of this IR.
-/
namespace Pyx.Gen.PbShape

/-- `one(…)` / `any(…)` / `many(…)` -/
inductive NavKind where
  | one | any | many
  deriving DecidableEq, Repr

/-- `.<cls>[<rel>]` / `.<cls>[<rel>, '<phrase>']` -/
structure Step where
  cls : String
  rel : Nat
  phrase : String
  deriving DecidableEq, Repr

/-- atoms: no call of the prebuilder, no effect -/
inductive A where
  | loc (x : String)                       -- <x>
  | none | tt | ff                         -- None True False
  | str (s : String)                       -- '<s>'
  | nat (n : Nat)
  | node (path : List String)              -- node(.<f>)*
  | selfField (f : String)                 -- self.<f>
  | attr (a : A) (f : String)              -- <a>.<f>
  | lower (a : A)                          -- <a>.lower()
  | strUpper (a : A)                       -- str(<a>).upper()
  | slice1m1 (a : A)                       -- <a>[1:-1]
  | className (a : A)                      -- <a>.__class__.__name__
  deriving DecidableEq, Repr

/-- the call argument of a navigation -/
inductive Filter where
  | all                                    -- ()
  | whereEq (k : String) (a : A)           -- (where(<k>=<a>))
  | flag (f : String) (negated : Bool)     -- (lambda sel: [not] sel.<f>)
  deriving DecidableEq, Repr

inductive E where
  | atom (a : A)
  | call (fn : String) (args : List A) (kw : List (String × A)) (star : Bool)   -- self.<fn>(<args…>, k=v…, [**kwargs])
  | selectAny (cls k : String) (a : A)                                          -- self.any('<cls>', where(<k>=<a>))
  | symtab (fn : String) (args : List A) (kw : List (String × A))               -- self.symtab.<fn>(…)
  | accept (child : A) (kw : List (String × A))                                 -- self.accept(<child>, k=v…)
  | new (cls : String) (kw : List (String × A)) (star : Bool)                   -- self.new('<cls>', k=v…, [**kwargs])
  | nav (k : NavKind) (start : A) (steps : List Step) (filter : Filter)         -- one(<start>).<steps…>(<filter>)
  | subtype (a : A) (rel : Nat)                                                 -- subtype(<a>, <rel>)
  | memOf (a : A) (l : List A)                                                  -- <a> in [<l…>]
  | or_ (a b : E) | and_ (a b : E) | not_ (a : E) | isNone (a : E) | eq (a b : E)
  deriving Repr

inductive S where
  | assign (x : String) (e : E)                                   -- <x> = <e>
  | setAttr (x f : String) (a : A)                                -- <x>.<f> = <a>
  | setSelf (f : String) (a : A)                                  -- self.<f> = <a>
  | relate (asserting : Bool) (a b : A) (rel : Nat) (phrase : String)   -- relate(a, b, n[, 'ph']) / xtuml.relate(…)
  | expr (e : E)                                                  -- <e>
  | ifThen (c : E) (thn els : List S)                             -- if <c>: … else: …      (elif = an if in the else)
  | whileDo (c : E) (body : List S)                               -- while <c>: …
  | forChildren (x : String) (reversed : Bool) (body : List S)    -- for <x> in [reversed(]node.children[)]: …
  | ret (e : E)                                                   -- return <e>
  | raise                                                         -- raise Exception(…)

structure Fn where
  name : String
  params : List String     -- without `self`; a trailing "**kwargs" is listed as such
  body : List S

'''


def _translate(f, name):
    a = f.args
    if a.vararg or a.kwonlyargs or a.posonlyargs or f.decorator_list or not a.args or a.args[0].arg != 'self':
        raise Shape('%s: unexpected signature' % name)
    for d in a.defaults:
        if not (isinstance(d, ast.Constant) and d.value is None):
            raise Shape('%s: default argument' % name)
    params = [x.arg for x in a.args[1:]]
    shown = params + (['**' + a.kwarg.arg] if a.kwarg else [])
    h = Fn(name, params)
    return shown, h.stmts(_strip_doc(f.body))


def generate(repo_dir):
    tree = ast.parse(open(os.path.join(repo_dir, 'bridgepoint', 'prebuild.py'), encoding='utf-8').read())
    classes = {n.name: n for n in tree.body if isinstance(n, ast.ClassDef)}
    mod_fns = {n.name: n for n in tree.body if isinstance(n, ast.FunctionDef)}
    # the asserting module-level `relate`
    rel = mod_fns.get('relate')
    if rel is None or ast.unparse(rel.body[0]) != 'assert xtuml.relate(*args, **kwargs)' or len(rel.body) != 1:
        raise Shape('module-level relate is not `assert xtuml.relate(*args, **kwargs)`')
    if 'ActionPrebuilder' not in classes:
        raise Shape('ActionPrebuilder not found')
    methods = {}
    for n in classes['ActionPrebuilder'].body:
        if isinstance(n, ast.FunctionDef):
            if n.name in methods:
                raise Shape('ActionPrebuilder.%s defined twice' % n.name)
            methods[n.name] = n
    out = [HEADER]
    names = []
    for name in HELPERS + HANDLERS:
        if name not in methods:
            raise Shape('ActionPrebuilder.%s not found' % name)
        params, items = _translate(methods[name], name)
        out.append('/-- `ActionPrebuilder.%s(self, %s)` -/' % (name, ', '.join(params)))
        out.append('def %s : Fn :=\n  { name := %s, params := [%s], body :=\n    %s }\n'
                   % (name, _s(name), ', '.join(_s(p) for p in params), _render_block(items, 4)))
        names.append(name)
    # self-declaring find_symbol of the homes that have a `self`
    texts = []
    for cn in SELF_HOMES:
        c = classes.get(cn)
        fs = [n for n in (c.body if c else []) if isinstance(n, ast.FunctionDef) and n.name == 'find_symbol']
        if len(fs) != 1:
            raise Shape('%s.find_symbol not found exactly once' % cn)
        texts.append(ast.dump(fs[0]))
        last = fs[0]
    if len(set(texts)) != 1:
        raise Shape('the find_symbol overrides of %s differ' % ', '.join(SELF_HOMES))
    for cn, c in sorted(classes.items()):
        if cn not in SELF_HOMES and any(ast.unparse(b) == 'ActionPrebuilder' for b in c.bases):
            if any(isinstance(n, ast.FunctionDef) and n.name in HELPERS + HANDLERS and n.name != 'accept_BodyNode'
                   for n in c.body):
                raise Shape('%s overrides a translated method' % cn)
    for cn in SELF_HOMES:
        for n in classes[cn].body:
            if isinstance(n, ast.FunctionDef) and n.name in HELPERS + HANDLERS \
                    and n.name not in ('accept_BodyNode', 'find_symbol'):
                raise Shape('%s overrides %s' % (cn, n.name))
    params, items = _translate(last, 'find_symbol_self')
    out.append('/-- `find_symbol(self, node, name)` of %s (identical) -/' % ' / '.join(SELF_HOMES))
    out.append('def find_symbol_self : Fn :=\n  { name := "find_symbol_self", params := [%s], body :=\n    %s }\n'
               % (', '.join(_s(p) for p in params), _render_block(items, 4)))
    out.append('def methods : List Fn :=\n  [' + ', '.join(names) + ']\n')
    out.append('end Pyx.Gen.PbShape\n')
    return [('PbShape.lean', '\n'.join(out))]


if __name__ == '__main__':
    import sys
    for name, text in generate(sys.argv[1] if len(sys.argv) > 1 else '/repo'):
        sys.stdout.write(text)
