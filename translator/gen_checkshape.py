"""xtuml/consistency_check.py -> lean/Gen/CheckShape.lean:
Reads, with `ast` only, the LOOP STRUCTURE of the four check functions and emits it, statement by statement, as a small
first-order IR (`Pyx.Gen.CheckShape`):

  check_subtype_integrity, check_link_integrity, check_association_integrity, check_uniqueness_constraint
      which collection every `for` ranges over (m.select_many(kind), link.from_metaclass.select_many(), m.associations,
      m.metaclasses.values() / [m.find_metaclass(kind)], metaclass.select_many(), metaclass.attributes, metaclass.indices,
      metaclass.indices[identifier]), what is navigated (xtuml.navigate_subtype(inst, rel_id), list(link.navigate(inst))),
      under which test `res += 1` happens, the `continue`, the dictionaries (id_map, kwargs, frozenset(kwargs.items())) and
      WHEN the key is stored, the calls `res += check_link_integrity(m, ass.source_link / target_link)`, `return res`.
      The two DECISIONS that translator/gen_checkcond.py already turns into Lean functions (the counting condition of
      check_link_integrity, the null test) appear as the IR atoms `linkCond` / `nullTest`; their statements are demanded to
      have exactly the text gen_checkcond reads.

Every statement or expression outside this fragment raises (= broken tie).  Props/C11.lean (`*_as_in_source`) proves that the
counting functions of the model (PyxModel/Check.lean) equal a generic interpretation (Proofs/CheckShape.lean) of this IR.
"""
import ast
import os

OUTPUTS = ['CheckShape.lean']

FUNCS = ['check_subtype_integrity', 'check_link_integrity', 'check_association_integrity', 'check_uniqueness_constraint']


class Shape(ValueError):
    pass


def _s(s):
    out = []
    for ch in s:
        o = ord(ch)
        if ch == '"':
            out.append('\\"')
        elif ch == '\\':
            out.append('\\\\')
        elif 32 <= o < 127:
            out.append(ch)
        else:
            out.append('\\u{%x}' % o)
    return '"' + ''.join(out) + '"'


def _strip_doc(body):
    body = list(body)
    if body and isinstance(body[0], ast.Expr) and isinstance(getattr(body[0], 'value', None), ast.Constant) \
            and isinstance(body[0].value.value, str):
        body = body[1:]
    return body


def _name(n):
    return n.id if isinstance(n, ast.Name) else None


def _call(n, nargs=None):
    """(callee node, args) of a call without keywords"""
    if isinstance(n, ast.Call) and not n.keywords and (nargs is None or len(n.args) == nargs):
        return n.func, n.args
    return None, None


def _attr(n):
    """<name>.<attr> -> (name, attr)"""
    if isinstance(n, ast.Attribute) and isinstance(n.value, ast.Name):
        return n.value.id, n.attr
    return None, None


class Fn(object):
    def __init__(self, name, params):
        self.where = name
        self.locals = set(params)

    def fail(self, node, what='outside the translated fragment'):
        raise Shape('%s: %s: %s' % (self.where, what, ast.unparse(node) if isinstance(node, ast.AST) else node))

    def local(self, n):
        if isinstance(n, ast.Name) and n.id in self.locals:
            return n.id
        self.fail(n, 'expected a local variable')

    def L(self, n):
        return _s(self.local(n))

    # ------------------------------------------------------------------- expressions
    def expr(self, n):
        if isinstance(n, ast.Name):
            return '(.var %s)' % self.L(n)
        if isinstance(n, ast.Constant) and n.value is None:
            return '.none'
        if isinstance(n, ast.Constant) and isinstance(n.value, int) and not isinstance(n.value, bool) and n.value >= 0:
            return '(.nat %d)' % n.value
        x, f = _attr(n)
        if x is not None and x in self.locals:
            return '(.field %s %s)' % (_s(x), _s(f))
        # <x>.<f>[<k>]
        if isinstance(n, ast.Subscript):
            x, f = _attr(n.value)
            if x is not None and x in self.locals and isinstance(n.slice, ast.Name):
                return '(.fieldAt %s %s %s)' % (_s(x), _s(f), self.L(n.slice))
            self.fail(n, 'subscript')
        # [<m>.find_metaclass(<kind>)]
        if isinstance(n, ast.List) and len(n.elts) == 1:
            fn, a = _call(n.elts[0], 1)
            x, f = _attr(fn) if fn is not None else (None, None)
            if f == 'find_metaclass' and x in self.locals:
                return '(.oneMetaclass %s %s)' % (_s(x), self.L(a[0]))
            self.fail(n, 'list literal')
        fn, a = _call(n)
        if fn is None:
            self.fail(n, 'expression')
        src = ast.unparse(fn)
        # <m>.select_many(<kind>) / <cls>.select_many()
        x, f = _attr(fn)
        if f == 'select_many' and x in self.locals:
            if len(a) == 1:
                return '(.selectMany %s %s)' % (_s(x), self.L(a[0]))
            if len(a) == 0:
                return '(.poolOf %s)' % _s(x)
        # <link>.from_metaclass.select_many()
        if isinstance(fn, ast.Attribute) and fn.attr == 'select_many' and not a:
            x, f = _attr(fn.value)
            if f == 'from_metaclass' and x in self.locals:
                return '(.fromPool %s)' % _s(x)
        # <m>.metaclasses.values()
        if isinstance(fn, ast.Attribute) and fn.attr == 'values' and not a:
            x, f = _attr(fn.value)
            if f == 'metaclasses' and x in self.locals:
                return '(.allMetaclasses %s)' % _s(x)
        if src == 'xtuml.navigate_subtype' and len(a) == 2:
            return '(.navigateSubtype %s %s)' % (self.L(a[0]), self.L(a[1]))
        # list(<link>.navigate(<inst>))
        if src == 'list' and len(a) == 1:
            fn2, a2 = _call(a[0], 1)
            x, f = _attr(fn2) if fn2 is not None else (None, None)
            if f == 'navigate' and x in self.locals:
                return '(.listNavigate %s %s)' % (_s(x), self.L(a2[0]))
        if src == 'getattr' and len(a) == 2:
            return '(.getattr %s %s)' % (self.L(a[0]), self.L(a[1]))
        if src == 'dict' and not a:
            return '.newDict'
        # frozenset(<d>.items())
        if src == 'frozenset' and len(a) == 1:
            fn2, a2 = _call(a[0], 0)
            x, f = _attr(fn2) if fn2 is not None else (None, None)
            if f == 'items' and x in self.locals:
                return '(.frozensetItems %s)' % _s(x)
        # set(n.upper() for n in <cls>.<f>)
        if src == 'set' and len(a) == 1 and isinstance(a[0], ast.GeneratorExp) and len(a[0].generators) == 1:
            g = a[0].generators[0]
            x, f = _attr(g.iter)
            if not g.ifs and not g.is_async and isinstance(g.target, ast.Name) and x in self.locals \
                    and ast.unparse(a[0].elt) == '%s.upper()' % g.target.id:
                return '(.upperSet %s %s)' % (_s(x), _s(f))
        # pretty_*(…): text for the log message only
        if src.startswith('pretty_') and all(isinstance(x, ast.Name) and x.id in self.locals for x in a):
            return '(.pretty %s)' % _s(src)
        # check_link_integrity(<m>, <ass>.<link>)
        if src in FUNCS and len(a) == 2:
            x, f = _attr(a[1])
            if x in self.locals:
                return '(.callOn %s %s %s %s)' % (_s(src), self.L(a[0]), _s(x), _s(f))
        self.fail(n, 'expression')

    def cond(self, n):
        if isinstance(n, ast.Name):
            return '(.truthy %s)' % self.L(n)
        if isinstance(n, ast.UnaryOp) and isinstance(n.op, ast.Not):
            return '(.notE %s)' % self.expr(n.operand)
        if isinstance(n, ast.Compare) and len(n.ops) == 1:
            op, l, r = n.ops[0], n.left, n.comparators[0]
            if isinstance(op, ast.Is) and isinstance(r, ast.Constant) and r.value is None:
                return '(.isNone %s)' % self.L(l)
            if isinstance(op, ast.In) and isinstance(r, ast.List):
                return '(.inList %s [%s])' % (self.L(l), ', '.join(self.expr(e) for e in r.elts))
            # <name>.upper() not in <set>
            if isinstance(op, ast.NotIn) and isinstance(r, ast.Name):
                fn, a = _call(l, 0)
                x, f = _attr(fn) if fn is not None else (None, None)
                if f == 'upper' and x in self.locals:
                    return '(.upperNotIn %s %s)' % (_s(x), self.L(r))
            # <key> in <d>[<k>]
            if isinstance(op, ast.In) and isinstance(r, ast.Subscript) and isinstance(r.value, ast.Name) \
                    and isinstance(r.slice, ast.Name):
                return '(.inDictAt %s %s %s)' % (self.L(l), self.L(r.value), self.L(r.slice))
        # the counting condition of check_link_integrity: the text gen_checkcond.py translates
        if isinstance(n, ast.BoolOp):
            src = ast.unparse(n)
            for q in sorted(self.locals):
                for link in sorted(self.locals):
                    if src == 'len(%s) < 1 and (not %s.conditional) or (len(%s) > 1 and (not %s.many))' % (q, link, q, link):
                        return '(.linkCond %s %s)' % (_s(q), _s(link))
        self.fail(n, 'condition')

    # ------------------------------------------------------------------- statements
    def stmts(self, body):
        out, i = [], 0
        body = list(body)
        while i < len(body):
            st = body[i]
            # isnull = <v> is None ; isnull |= (<ty>.upper() == 'UNIQUE_ID' and not <v>)   (the text gen_checkcond.py reads)
            if isinstance(st, ast.Assign) and i + 1 < len(body) and isinstance(body[i + 1], ast.AugAssign) \
                    and isinstance(body[i + 1].op, ast.BitOr) and len(st.targets) == 1 and _name(st.targets[0]) \
                    and _name(body[i + 1].target) == _name(st.targets[0]):
                dst = _name(st.targets[0])
                t1, t2 = ast.unparse(st.value), ast.unparse(body[i + 1].value)
                hit = None
                for v in sorted(self.locals):
                    for ty in sorted(self.locals):
                        if t1 == '%s is None' % v and t2 == "%s.upper() == 'UNIQUE_ID' and (not %s)" % (ty, v):
                            hit = (v, ty)
                if hit is None:
                    self.fail(st, 'null test')
                self.locals.add(dst)
                out.append('.nullTest %s %s %s' % (_s(dst), _s(hit[0]), _s(hit[1])))
                i += 2
                continue
            out.append(self.stmt(st))
            i += 1
        return out

    def stmt(self, st):
        if isinstance(st, ast.Return):
            if st.value is None:
                self.fail(st, 'bare return')
            return '.ret %s' % self.L(st.value)
        if isinstance(st, ast.Continue):
            return '.continue_'
        if isinstance(st, ast.Assign):
            if len(st.targets) != 1:
                self.fail(st, 'assignment')
            t = st.targets[0]
            if isinstance(t, ast.Name):
                e = self.expr(st.value)
                self.locals.add(t.id)
                return '.assign %s %s' % (_s(t.id), e)
            # <d>[<k>] = dict() / <d>[<k>] = <getattr…> / <d>[<k1>][<k2>] = <x>
            if isinstance(t, ast.Subscript) and isinstance(t.slice, ast.Name):
                if isinstance(t.value, ast.Name):
                    return '.dictSet %s %s %s' % (self.L(t.value), self.L(t.slice), self.expr(st.value))
                if isinstance(t.value, ast.Subscript) and isinstance(t.value.value, ast.Name) \
                        and isinstance(t.value.slice, ast.Name):
                    return '.dictSet2 %s %s %s %s' % (self.L(t.value.value), self.L(t.value.slice), self.L(t.slice),
                                                      self.expr(st.value))
            self.fail(st, 'assignment target')
        if isinstance(st, ast.AugAssign) and isinstance(st.op, ast.Add) and isinstance(st.target, ast.Name):
            if isinstance(st.value, ast.Constant) and st.value.value == 1:
                return '.incr %s' % self.L(st.target)
            return '.addTo %s %s' % (self.L(st.target), self.expr(st.value))
        if isinstance(st, ast.Expr):
            fn, a = _call(st.value)
            if fn is not None and ast.unparse(fn) in ('logger.warning', 'logger.info', 'logger.debug', 'logger.error'):
                return '.log'
            self.fail(st, 'expression statement')
        if isinstance(st, ast.If):
            # if isinstance(<x>, int): <x> = 'R%d' % <x>
            t = ast.unparse(st.test)
            if not st.orelse and len(st.body) == 1:
                for x in sorted(self.locals):
                    if t == 'isinstance(%s, int)' % x and ast.unparse(st.body[0]) == "%s = 'R%%d' %% %s" % (x, x):
                        return '.normRel %s' % _s(x)
            c = self.cond(st.test)
            saved = set(self.locals)
            thn = self.stmts(st.body)
            l1 = self.locals
            self.locals = set(saved)
            els = self.stmts(st.orelse)
            # a local is bound afterwards only if both branches bind it
            self.locals = (l1 & self.locals) | saved
            return ('.ifC %s' % c, [thn, els])
        if isinstance(st, ast.For):
            if st.orelse:
                self.fail(st, 'for ... else')
            if isinstance(st.target, ast.Name):
                vs = [st.target.id]
            elif isinstance(st.target, ast.Tuple) and all(isinstance(e, ast.Name) for e in st.target.elts):
                vs = [e.id for e in st.target.elts]
            else:
                self.fail(st, 'for target')
            it = self.expr(st.iter)
            for v in vs:
                self.locals.add(v)
            return ('.forIn [%s] %s' % (', '.join(_s(v) for v in vs), it), [self.stmts(st.body)])
        self.fail(st, 'statement outside the translated fragment')


def _render_block(items, ind):
    if not items:
        return '[]'
    pad = ' ' * (ind + 2)
    return '[\n' + ',\n'.join(pad + _render(i, ind + 2) for i in items) + ' ]'


def _render(item, ind):
    if isinstance(item, str):
        return item
    return '%s %s' % (item[0], ' '.join(_render_block(b, ind) for b in item[1]))


HEADER = '''/-
  GENERATED by translator/gen_checkshape.py from xtuml/consistency_check.py — do not edit.
  The loop structure of the four check functions, statement by statement, as a first-order IR.  Props/C11.lean
  (`*_as_in_source`) proves that the counting functions of the model (PyxModel/Check.lean) equal the generic interpretation
  (Proofs/CheckShape.lean) of this IR.
-/
namespace Pyx.Gen.CheckShape

inductive Expr where
  | var (x : String)                                  -- <x>
  | none                                              -- None
  | nat (n : Nat)                                     -- <n>
  | field (x f : String)                              -- <x>.<f>
  | fieldAt (x f k : String)                          -- <x>.<f>[<k>]
  | selectMany (m kind : String)                      -- <m>.select_many(<kind>)
  | poolOf (cls : String)                             -- <cls>.select_many()
  | fromPool (link : String)                          -- <link>.from_metaclass.select_many()
  | allMetaclasses (m : String)                       -- <m>.metaclasses.values()
  | oneMetaclass (m kind : String)                    -- [<m>.find_metaclass(<kind>)]
  | navigateSubtype (inst rel : String)               -- xtuml.navigate_subtype(<inst>, <rel>)
  | listNavigate (link inst : String)                 -- list(<link>.navigate(<inst>))
  | getattr (inst name : String)                      -- getattr(<inst>, <name>)
  | newDict                                           -- dict()
  | frozensetItems (d : String)                       -- frozenset(<d>.items())
  | upperSet (x f : String)                           -- set(n.upper() for n in <x>.<f>)
  | callOn (fn m x f : String)                        -- <fn>(<m>, <x>.<f>)
  | pretty (fn : String)                              -- pretty_…(…): text of a log message
  deriving Repr

inductive Cond where
  | truthy (x : String)                               -- <x>
  | notE (e : Expr)                                   -- not <e>
  | isNone (x : String)                               -- <x> is None
  | inList (x : String) (alts : List Expr)            -- <x> in [<alts…>]
  | upperNotIn (x set : String)                       -- <x>.upper() not in <set>
  | inDictAt (key d k : String)                       -- <key> in <d>[<k>]
  | linkCond (q link : String)                        -- len(<q>) < 1 and not <link>.conditional or (len(<q>) > 1 and not <link>.many)
                                                      --   (as a function: Gen.CheckCond.violates)
  deriving Repr

inductive Stmt where
  | assign (dst : String) (e : Expr)                  -- <dst> = <e>
  | normRel (x : String)                              -- if isinstance(<x>, int): <x> = 'R%d' % <x>
  | incr (x : String)                                 -- <x> += 1
  | addTo (x : String) (e : Expr)                     -- <x> += <e>
  | nullTest (dst v ty : String)                      -- <dst> = <v> is None; <dst> |= (<ty>.upper() == 'UNIQUE_ID' and not <v>)
                                                      --   (as a function: Gen.CheckCond.isNull)
  | dictSet (d k : String) (e : Expr)                 -- <d>[<k>] = <e>
  | dictSet2 (d k1 k2 : String) (e : Expr)            -- <d>[<k1>][<k2>] = <e>
  | log                                               -- logger.<level>(…)
  | continue_
  | ifC (c : Cond) (thn els : List Stmt)
  | forIn (vars : List String) (e : Expr) (body : List Stmt)
  | ret (x : String)                                  -- return <x>

structure Fn where
  name : String
  params : List String
  body : List Stmt

'''


def generate(repo_dir):
    tree = ast.parse(open(os.path.join(repo_dir, 'xtuml', 'consistency_check.py'), encoding='utf-8').read())
    out = [HEADER]
    for name in FUNCS:
        fs = [n for n in tree.body if isinstance(n, ast.FunctionDef) and n.name == name]
        allf = [n for n in ast.walk(tree) if isinstance(n, (ast.FunctionDef, ast.AsyncFunctionDef)) and n.name == name]
        if len(fs) != 1 or len(allf) != 1:
            raise Shape('%s not defined exactly once' % name)
        f = fs[0]
        a = f.args
        if a.vararg or a.kwarg or a.kwonlyargs or a.posonlyargs or f.decorator_list \
                or any(not (isinstance(d, ast.Constant) and d.value is None) for d in a.defaults):
            raise Shape('%s: unexpected signature' % name)
        params = [x.arg for x in a.args]
        h = Fn(name, params)
        items = h.stmts(_strip_doc(f.body))
        out.append('/-- `%s(%s)` -/' % (name, ', '.join(params)))
        out.append('def %s : Fn :=\n  { name := %s, params := [%s], body :=\n    %s }\n'
                   % (name, _s(name), ', '.join(_s(p) for p in params), _render_block(items, 4)))
    out.append('end Pyx.Gen.CheckShape\n')
    return [('CheckShape.lean', '\n'.join(out))]


if __name__ == '__main__':
    import sys
    for name, text in generate(sys.argv[1] if len(sys.argv) > 1 else '/repo'):
        sys.stdout.write(text)
